(* SerP.v — lemmas about Model/Ser.v: the stream monad, big-endian integers and their width
   selection, lengths, sequences, maps, sets, classes; the round-trip theorem by structural
   induction on the value grammar; what the encoder refuses. *)
From Coq Require Import Lia ZifyBool.
From Model Require Import Base Utf8 Ser.
From Proofs Require Import Tac BytesP Utf8P.
Open Scope Z_scope.

(* ---------- structural induction on the (nested) value grammar *)
Section ValueInd.
  Variable P : value -> Prop.
  Hypothesis HNone : P VNone.
  Hypothesis HBool : forall b, P (VBool b).
  Hypothesis HInt : forall z, P (VInt z).
  Hypothesis HFloat : forall b, P (VFloat b).
  Hypothesis HStr : forall s, P (VStr s).
  Hypothesis HBytes : forall b, P (VBytes b).
  Hypothesis HList : forall l, Forall P l -> P (VList l).
  Hypothesis HTuple : forall l, Forall P l -> P (VTuple l).
  Hypothesis HDict : forall kv, Forall (fun p => P (fst p) /\ P (snd p)) kv -> P (VDict kv).
  Hypothesis HSet : forall l, Forall P l -> P (VSet l).
  Hypothesis HObj : forall t l, Forall P l -> P (VObj t l).
  Hypothesis HEnum : forall t x, P x -> P (VEnum t x).
  Hypothesis HUnsup : P VUnsup.

  Fixpoint value_ind' (v : value) : P v :=
    let go := fix go (l : list value) : Forall P l :=
      match l with
      | [] => Forall_nil P
      | x :: r => Forall_cons x (value_ind' x) (go r)
      end in
    match v with
    | VNone => HNone
    | VBool b => HBool b
    | VInt z => HInt z
    | VFloat b => HFloat b
    | VStr s => HStr s
    | VBytes b => HBytes b
    | VList l => HList l (go l)
    | VTuple l => HTuple l (go l)
    | VDict kv =>
        HDict kv ((fix gd (l : list (value * value)) : Forall (fun p => P (fst p) /\ P (snd p)) l :=
                     match l with
                     | [] => Forall_nil _
                     | p :: r => Forall_cons p (conj (value_ind' (fst p)) (value_ind' (snd p))) (gd r)
                     end) kv)
    | VSet l => HSet l (go l)
    | VObj t l => HObj t l (go l)
    | VEnum t x => HEnum t x (value_ind' x)
    | VUnsup => HUnsup
    end.
End ValueInd.

(* ---------- lists *)
Lemma firstn_len_app : forall A (a b : list A), firstn (length a) (a ++ b) = a.
Proof. induction a; intro b; cbn; [reflexivity | now rewrite IHa]. Qed.
Lemma skipn_len_app : forall A (a b : list A), skipn (length a) (a ++ b) = b.
Proof. induction a; intro b; cbn; [reflexivity | apply IHa]. Qed.

Lemma mapM_cons : forall A B (f : A -> sres B) x r,
  mapM f (x :: r) = dos y <- f x; dos ys <- mapM f r; SOk (y :: ys).
Proof. reflexivity. Qed.

Lemma mapM_length : forall A B (f : A -> sres B) l ys, mapM f l = SOk ys -> length ys = length l.
Proof.
  induction l as [|x r IH]; intros ys H.
  - cbn in H. inversion H. reflexivity.
  - rewrite mapM_cons in H. destruct (f x) as [y|e]; [|discriminate]. cbn in H.
    destruct (mapM f r) as [ys'|e]; [|discriminate]. cbn in H. inversion H; subst.
    cbn. f_equal. apply IH. reflexivity.
Qed.

(* ---------- the stream monad *)
Notation "'dom' x <- r ; k" := (mbind r (fun x => k)) (at level 200, x pattern, r at level 100, k at level 200).

(* m, started on a stream holding i, succeeds with a and leaves o *)
Definition Runs {A} (m : M A) (i : list byte) (a : A) (o : list byte) : Prop :=
  forall s, rem s = i -> exists s', m s = (SOk a, s') /\ rem s' = o.

Lemma Runs_ret : forall A (a : A) i, Runs (ret a) i a i.
Proof. intros A a i s Hs. exists s. split; [reflexivity | assumption]. Qed.

Lemma Runs_bind : forall A B (m : M A) (f : A -> M B) i a mid b o,
  Runs m i a mid -> Runs (f a) mid b o -> Runs (mbind m f) i b o.
Proof.
  intros A B m f i a mid b o H1 H2 s Hs.
  destruct (H1 s Hs) as [s1 [E1 R1]]. destruct (H2 s1 R1) as [s2 [E2 R2]].
  exists s2. unfold mbind. rewrite E1. split; assumption.
Qed.

Lemma Runs_conv : forall A (m : M A) i a o, Runs m i a o -> Runs (conv m) i a o.
Proof.
  intros A m i a o H s Hs. destruct (H s Hs) as [s' [E R]].
  exists s'. unfold conv. rewrite E. split; [reflexivity | assumption].
Qed.

Lemma Runs_lift : forall A (a : A) i, Runs (lift (SOk a)) i a i.
Proof. intros A a i s Hs. exists s. split; [reflexivity | assumption]. Qed.

Lemma Runs_tick : forall i, Runs tick_val i tt i.
Proof. intros i s Hs. eexists. split; [reflexivity | exact Hs]. Qed.

Lemma Runs_read : forall bs rest n, n = len bs -> Runs (m_read n) (bs ++ rest) bs rest.
Proof.
  intros bs rest n Hn s Hs. unfold m_read. eexists. split; [|cbn [rem]].
  - f_equal. f_equal. rewrite Hs.
    assert (n <? 0 = false) as -> by (unfold len in Hn; lia).
    assert (Z.to_nat n = length bs) as -> by (unfold len in Hn; lia).
    apply firstn_len_app.
  - rewrite Hs.
    assert (n <? 0 = false) as -> by (unfold len in Hn; lia).
    assert (Z.to_nat n = length bs) as -> by (unfold len in Hn; lia).
    apply skipn_len_app.
Qed.

Lemma Runs_rd : forall f bs rest k, k = len bs -> Runs (rd (S f) k) (bs ++ rest) bs rest.
Proof.
  intros f bs rest k Hk. unfold rd.
  eapply Runs_bind; [apply Runs_read; exact Hk|].
  assert (len bs =? k = true) as -> by lia. apply Runs_ret.
Qed.

Lemma Runs_rep : forall A (m : M A) (xs : list A) (bss : list (list byte)) rest,
  Forall2 (fun x bs => forall r, Runs m (bs ++ r) x r) xs bss ->
  Runs (rep (length xs) m) (concat bss ++ rest) xs rest.
Proof.
  intros A m xs bss rest H. induction H as [|x bs xs bss Hx _ IH].
  - cbn. apply Runs_ret.
  - cbn [length rep concat]. rewrite <- app_assoc.
    eapply Runs_bind; [apply Hx|]. eapply Runs_bind; [apply IH|]. apply Runs_ret.
Qed.

Lemma Runs_dec_len : forall (sub : M value) cap i n o,
  Runs sub i (VInt n) o -> n <= cap -> Runs (dec_len sub cap) i n o.
Proof.
  intros sub cap i n o H Hc. unfold dec_len. eapply Runs_bind; [exact H|].
  cbn [as_len]. assert (cap <? n = false) as -> by lia. apply Runs_ret.
Qed.

Lemma Runs_dec_fields : forall (sub : M value) xs bss rest,
  Forall2 (fun x bs => forall r, Runs sub (bs ++ r) x r) xs bss ->
  forall defs, length defs = length xs ->
  Runs (dec_fields sub (len xs) defs) (concat bss ++ rest) xs rest.
Proof.
  intros sub xs bss rest H. induction H as [|x bs xs bss Hx _ IH]; intros defs Hd.
  - destruct defs; [|discriminate]. cbn. apply Runs_ret.
  - destruct defs as [|d ds]; [discriminate|]. cbn [dec_fields].
    rewrite len_cons. assert (1 + len xs <=? 0 = false) as -> by (pose proof (len_nonneg _ xs); lia).
    cbn [concat]. rewrite <- app_assoc.
    eapply Runs_bind; [apply Hx|].
    replace (1 + len xs - 1) with (len xs) by lia.
    eapply Runs_bind; [apply IH; cbn in Hd; lia|]. apply Runs_ret.
Qed.

(* ---------- two-byte tags and signed big-endian integers *)
Lemma tag_len : forall t, len (tag t) = 2.
Proof. intro t. unfold tag, len. rewrite be_enc_length. reflexivity. Qed.

Lemma tag_dec : forall t, 0 <= t < 65536 -> be_dec (tag t) = t.
Proof.
  intros t H. unfold tag. rewrite be_dec_enc. change (256 ^ Z.of_nat 2) with 65536.
  apply Z.mod_small. exact H.
Qed.

Lemma be_enc_len : forall n z, len (be_enc n z) = Z.of_nat n.
Proof. intros. unfold len. now rewrite be_enc_length. Qed.

Section Dec.
  Variable fc : fconv.
  Variable pk : value -> option serr.
  Variable reg : registry.

  Notation dv := (dec_value fc pk reg).

  Lemma dec_value_SS : forall f2, dv (S (S f2)) = dec_body fc pk reg (dv f2) (S f2).
  Proof. reflexivity. Qed.

  (* a value that starts with a base type id *)
  Lemma Runs_dec_base : forall t k f2 i v o,
    0 <= t < 65536 -> base_kind t = Some k ->
    Runs (dec_base fc (dv f2) f2 k) i v o ->
    Runs (dv (S (S f2))) (tag t ++ i) v o.
  Proof.
    intros t k f2 i v o Ht Hk H. rewrite dec_value_SS. unfold dec_body.
    eapply Runs_bind; [apply Runs_tick|].
    eapply Runs_bind; [apply Runs_read; symmetry; apply tag_len|].
    rewrite tag_len. cbn [Z.eqb Pos.eqb negb]. rewrite (tag_dec t Ht), Hk.
    apply Runs_conv. exact H.
  Qed.

  (* a value that starts with the id of a registered class *)
  Lemma Runs_dec_cls : forall t c f2 i v o,
    tid_ok t = true -> reg_find reg t = Some c ->
    Runs (dec_cls pk (dv f2) t c) i v o ->
    Runs (dv (S (S f2))) (tag t ++ i) v o.
  Proof.
    intros t c f2 i v o Ht Hc H. rewrite dec_value_SS. unfold dec_body.
    unfold tid_ok in Ht.
    destruct (base_kind t) eqn:Hk; [rewrite andb_false_r in Ht; discriminate|].
    assert (0 <= t < 65536) as Hr by lia.
    eapply Runs_bind; [apply Runs_tick|].
    eapply Runs_bind; [apply Runs_read; symmetry; apply tag_len|].
    rewrite tag_len. cbn [Z.eqb Pos.eqb negb]. rewrite (tag_dec t Hr), Hk, Hc.
    apply Runs_conv. exact H.
  Qed.

  (* serialize_int / the four signed readers *)
  Lemma enc_int_dec : forall z, - 2 ^ 63 <= z < 2 ^ 63 ->
    exists bs, enc_int z = SOk bs /\
      forall f rest, Runs (dv (S (S (S f)))) (bs ++ rest) (VInt z) rest.
  Proof.
    intros z Hz. unfold enc_int.
    assert (forall n k kk, (0 < n)%nat -> base_kind k = Some kk -> 0 <= k < 65536 ->
              - (256 ^ Z.of_nat n) <= 2 * z < 256 ^ Z.of_nat n ->
              (forall f, dec_base fc (dv (S f)) (S f) kk
                         = (dom b <- rd (S f) (Z.of_nat n); ret (VInt (be_dec_signed b)))) ->
              forall f rest, Runs (dv (S (S (S f)))) ((tag k ++ be_enc n z) ++ rest) (VInt z) rest) as W.
    { intros n k kk Hn Hk Hkr Hr Hd f rest. rewrite <- app_assoc.
      eapply Runs_dec_base; [exact Hkr | exact Hk |]. rewrite Hd.
      eapply Runs_bind; [apply Runs_rd; symmetry; apply be_enc_len|].
      rewrite be_dec_signed_enc by assumption. apply Runs_ret. }
    destruct (0x7FFFFFFF <? Z.abs z) eqn:E1.
    { assert ((- 2 ^ 63 <=? z) && (z <? 2 ^ 63) = true) as -> by lia.
      eexists. split; [reflexivity|].
      apply (W 8%nat 6 KI64); try reflexivity; try lia. }
    destruct (0x7FFF <? Z.abs z) eqn:E2.
    { eexists. split; [reflexivity|].
      apply (W 4%nat 5 KI32); try reflexivity; try lia. }
    destruct (0x7F <? Z.abs z) eqn:E3.
    { eexists. split; [reflexivity|].
      apply (W 2%nat 4 KI16); try reflexivity; try lia. }
    eexists. split; [reflexivity|].
    apply (W 1%nat 3 KI8); try reflexivity; try lia.
  Qed.


  (* lengths are ordinary encoded ints *)
  Lemma enc_len_dec : forall n, 0 <= n <= MAXB ->
    exists bs, enc_int n = SOk bs /\
      forall f rest, Runs (dv (S (S (S f)))) (bs ++ rest) (VInt n) rest.
  Proof. intros n H. apply enc_int_dec. unfold MAXB in H. lia. Qed.

  (* ---------- unfolding equations *)
  Notation encv := (enc fc reg).
  Notation normv := (norm fc).
  Definition enc_pair (p : value * value) : sres (list byte) :=
    let '(k, x) := p in dos a <- encv k; dos b <- encv x; SOk (a ++ b).
  Definition norm_pair (p : value * value) : sres (value * value) :=
    let '(k, x) := p in dos a <- normv k; dos b <- normv x; SOk (a, b).

  Lemma enc_seq_eq : forall l, encv (VList l) =
    if MAXA <? len l then SErr (SE EValue)
    else dos h <- enc_int (len l); dos body <- mapM encv l; SOk (tag 16 ++ h ++ concat body).
  Proof. reflexivity. Qed.
  Lemma enc_tuple_eq : forall l, encv (VTuple l) = encv (VList l).
  Proof. reflexivity. Qed.
  Lemma enc_set_eq : forall l, encv (VSet l) =
    if MAXA <? len l then SErr (SE EValue)
    else dos h <- enc_int (len l); dos body <- mapM encv l; SOk (tag 18 ++ h ++ concat body).
  Proof. reflexivity. Qed.
  Lemma enc_dict_eq : forall kv, encv (VDict kv) =
    if MAXA <? len kv then SErr (SE EValue)
    else dos h <- enc_int (len kv); dos body <- mapM enc_pair kv; SOk (tag 17 ++ h ++ concat body).
  Proof. reflexivity. Qed.
  Lemma enc_obj_eq : forall t fs, encv (VObj t fs) =
    if tid_packable t then
      dos h <- enc_int (len fs); dos body <- mapM encv fs; SOk (tag t ++ h ++ concat body)
    else SErr (SE EStruct).
  Proof. reflexivity. Qed.
  Lemma enc_enum_eq : forall t x, encv (VEnum t x) =
    if tid_packable t then
      match reg_find reg t with
      | Some (CEnum ms) =>
          if hashable x then
            dos m <- mem_py x ms;
            if m then dos b <- encv x; SOk (tag t ++ b) else SErr (SE EValue)
          else SErr (SE EType)
      | _ => SErr (SE EOther)
      end
    else SErr (SE EStruct).
  Proof. reflexivity. Qed.

  Lemma norm_list_eq : forall l, normv (VList l) = dos l' <- mapM normv l; SOk (VList l').
  Proof. reflexivity. Qed.
  Lemma norm_tuple_eq : forall l, normv (VTuple l) = dos l' <- mapM normv l; SOk (VList l').
  Proof. reflexivity. Qed.
  Lemma norm_set_eq : forall l, normv (VSet l) =
    dos l' <- mapM normv l; dos s <- set_build [] l'; SOk (VSet s).
  Proof. reflexivity. Qed.
  Lemma norm_dict_eq : forall kv, normv (VDict kv) =
    dos kv' <- mapM norm_pair kv; dos d <- dict_build [] kv'; SOk (VDict d).
  Proof. reflexivity. Qed.
  Lemma norm_obj_eq : forall t fs, normv (VObj t fs) = dos fs' <- mapM normv fs; SOk (VObj t fs').
  Proof. reflexivity. Qed.
  Lemma norm_enum_eq : forall t x, normv (VEnum t x) = dos x' <- normv x; SOk (VEnum t x').
  Proof. reflexivity. Qed.

  (* ---------- frames *)
  Lemma need_fold_le : forall l x, In x l ->
    (need x <= fold_right (fun x a => Nat.max (need x) a) 3%nat l)%nat.
  Proof.
    induction l as [|y r IH]; intros x Hin; [destruct Hin|].
    cbn [fold_right]. destruct Hin as [->|Hin]; [lia|]. specialize (IH x Hin). lia.
  Qed.
  Lemma need_fold_ge3 : forall l, (3 <= fold_right (fun x a => Nat.max (need x) a) 3%nat l)%nat.
  Proof. induction l; cbn [fold_right]; lia. Qed.
  Lemma need_foldp_le : forall kv p, In p kv ->
    (Nat.max (need (fst p)) (need (snd p))
     <= fold_right (fun p a => Nat.max (Nat.max (need (fst p)) (need (snd p))) a) 3%nat kv)%nat.
  Proof.
    induction kv as [|y r IH]; intros x Hin; [destruct Hin|].
    cbn [fold_right]. destruct Hin as [->|Hin]; [lia|]. specialize (IH x Hin). lia.
  Qed.
  Lemma need_foldp_ge3 : forall kv,
    (3 <= fold_right (fun p a => Nat.max (Nat.max (need (fst p)) (need (snd p))) a) 3%nat kv)%nat.
  Proof. induction kv; cbn [fold_right]; lia. Qed.

  (* ---------- the round trip of one value *)
  Hypothesis fc_range : forall b w, to32 fc b = SOk w -> 0 <= w < 2 ^ 32.
  Definition RT (v : value) : Prop :=
    forall nv, wf fc reg v -> normv v = SOk nv ->
    exists bs, encv v = SOk bs /\
      forall f rest, (need v <= f)%nat -> Runs (dv f) (bs ++ rest) nv rest.

  Lemma RT_list : forall l, Forall RT l ->
    fold_right (fun x P => wf fc reg x /\ P) True l ->
    forall l', mapM normv l = SOk l' ->
    exists bodies, mapM encv l = SOk bodies /\
      forall f, (forall x, In x l -> (need x <= f)%nat) ->
        Forall2 (fun x bs => forall r, Runs (dv f) (bs ++ r) x r) l' bodies.
  Proof.
    induction 1 as [|x r Hx _ IH]; intros Hwf l' Hn.
    - cbn in Hn. inversion Hn; subst. exists []. split; [reflexivity|]. intros. constructor.
    - cbn [fold_right] in Hwf. destruct Hwf as [Hwx Hwr].
      rewrite mapM_cons in Hn.
      destruct (normv x) as [nx|e] eqn:En; [|discriminate]. cbn [sbind] in Hn.
      destruct (mapM normv r) as [nr|e] eqn:Er; [|discriminate]. cbn [sbind] in Hn.
      inversion Hn; subst; clear Hn.
      destruct (Hx nx Hwx En) as [bx [Ebx Rx]].
      destruct (IH Hwr nr eq_refl) as [br [Ebr Rr]].
      exists (bx :: br). split.
      + rewrite mapM_cons, Ebx. cbn [sbind]. rewrite Ebr. reflexivity.
      + intros f Hf. constructor.
        * intro r0. apply Rx. apply Hf. left. reflexivity.
        * apply Rr. intros y Hy. apply Hf. right. exact Hy.
  Qed.

  Lemma RT_dict : forall kv, Forall (fun p => RT (fst p) /\ RT (snd p)) kv ->
    fold_right (fun p P => wf fc reg (fst p) /\ wf fc reg (snd p) /\ P) True kv ->
    forall kv', mapM norm_pair kv = SOk kv' ->
    exists bodies, mapM enc_pair kv = SOk bodies /\
      forall f, (forall p, In p kv -> (Nat.max (need (fst p)) (need (snd p)) <= f)%nat) ->
      forall acc d rest, dict_build acc kv' = SOk d ->
        Runs (dec_map_loop (dv f) (length kv) acc) (concat bodies ++ rest) d rest.
  Proof.
    induction 1 as [|[k x] r [Hk Hx] _ IH]; intros Hwf kv' Hn.
    - cbn in Hn. inversion Hn; subst. exists []. split; [reflexivity|].
      intros f _ acc d rest Hd. cbn in Hd. inversion Hd; subst. cbn. apply Runs_ret.
    - cbn [fold_right fst snd] in Hwf. destruct Hwf as [Hwk [Hwx Hwr]].
      rewrite mapM_cons in Hn. cbn [norm_pair] in Hn. cbn [fst snd] in Hk, Hx.
      destruct (normv k) as [nk|e] eqn:Ek; [|discriminate]. cbn [sbind] in Hn.
      destruct (normv x) as [nx|e] eqn:Ex; [|discriminate]. cbn [sbind] in Hn.
      destruct (mapM norm_pair r) as [nr|e] eqn:Er; [|discriminate]. cbn [sbind] in Hn.
      inversion Hn; subst; clear Hn.
      destruct (Hk nk Hwk Ek) as [bk [Ebk Rk]].
      destruct (Hx nx Hwx Ex) as [bx [Ebx Rx]].
      destruct (IH Hwr nr eq_refl) as [br [Ebr Rr]].
      exists ((bk ++ bx) :: br). split.
      + rewrite mapM_cons. cbn [enc_pair]. rewrite Ebk. cbn [sbind]. rewrite Ebx. cbn [sbind].
        rewrite Ebr. reflexivity.
      + intros f Hf acc d rest Hd. cbn [dict_build] in Hd.
        destruct (dict_put acc nk nx) as [acc'|e] eqn:Ep; [|discriminate]. cbn [sbind] in Hd.
        cbn [length dec_map_loop concat]. rewrite <- !app_assoc.
        pose proof (Hf (k, x) (or_introl eq_refl)) as Hfk. cbn [fst snd] in Hfk.
        eapply Runs_bind; [apply Rk; lia|].
        eapply Runs_bind; [apply Rx; lia|].
        rewrite Ep. eapply Runs_bind; [apply Runs_lift|].
        apply Rr; [|exact Hd]. intros p Hp. apply Hf. right. exact Hp.
  Qed.

  Lemma wf_fold_Forall : forall l, fold_right (fun x P => wf fc reg x /\ P) True l -> Forall (wf fc reg) l.
  Proof. induction l; cbn; intro H; constructor; tauto. Qed.

  Ltac fuel2 f Hf :=
    destruct f as [|[|f]]; [cbn in Hf; lia | cbn in Hf; lia |].

  Theorem roundtrip_value : forall v, RT v.
  Proof.
    induction v using value_ind'; unfold RT; intros nv Hwf Hn.
    - (* None *)
      inversion Hn; subst. exists (tag 15). split; [reflexivity|].
      intros f rest Hf. fuel2 f Hf.
      eapply Runs_dec_base with (k := KNull); [lia | reflexivity |]. apply Runs_ret.
    - (* bool *)
      inversion Hn; subst. eexists. split; [reflexivity|].
      intros f rest Hf. fuel2 f Hf. destruct f as [|f]; [cbn in Hf; lia|].
      rewrite <- app_assoc.
      eapply Runs_dec_base with (k := KBool); [lia | reflexivity |].
      cbn [dec_base]. eapply Runs_bind; [apply (Runs_rd f [if b then x01 else x00]); reflexivity|].
      destruct b; apply Runs_ret.
    - (* int *)
      inversion Hn; subst. cbn in Hwf.
      destruct (enc_int_dec z Hwf) as [bs [E R]]. exists bs. split; [exact E|].
      intros f rest Hf. fuel2 f Hf. destruct f as [|f]; [cbn in Hf; lia|]. apply R.
    - (* float *)
      cbn in Hwf. destruct Hwf as [w Hw]. cbn [norm] in Hn. rewrite Hw in Hn. cbn [sbind] in Hn.
      inversion Hn; subst. cbn [enc]. rewrite Hw. cbn [sbind]. eexists. split; [reflexivity|].
      intros f rest Hf. fuel2 f Hf. destruct f as [|f]; [cbn in Hf; lia|].
      rewrite <- app_assoc.
      eapply Runs_dec_base with (k := KF32); [lia | reflexivity |].
      cbn [dec_base]. eapply Runs_bind; [apply Runs_rd; symmetry; apply (be_enc_len 4)|].
      rewrite be_dec_enc. change (256 ^ Z.of_nat 4) with (2 ^ 32).
      rewrite Z.mod_small by (eapply fc_range; exact Hw). apply Runs_ret.
    - (* str *)
      inversion Hn; subst. cbn in Hwf. destruct Hwf as [bs [Hu Hl]].
      pose proof (len_nonneg _ bs) as H0.
      destruct (enc_len_dec (len bs) (conj H0 Hl)) as [lb [El Rl]].
      cbn [enc]. rewrite Hu. assert (MAXB <? len bs = false) as -> by lia.
      rewrite El. cbn [sbind]. eexists. split; [reflexivity|].
      intros f rest Hf. fuel2 f Hf.
      destruct f as [|[|[|f]]]; [cbn in Hf; lia..|].
      rewrite <- !app_assoc.
      eapply Runs_dec_base with (k := KStr); [lia | reflexivity |].
      cbn [dec_base].
      eapply Runs_bind; [apply Runs_dec_len; [apply Rl | exact Hl]|].
      eapply Runs_bind; [apply Runs_read; reflexivity|].
      rewrite (utf8_roundtrip _ _ Hu). apply Runs_ret.
    - (* bytes *)
      inversion Hn; subst. cbn in Hwf.
      pose proof (len_nonneg _ b) as H0.
      destruct (enc_len_dec (len b) (conj H0 Hwf)) as [lb [El Rl]].
      cbn [enc]. assert (MAXB <? len b = false) as -> by lia.
      rewrite El. cbn [sbind]. eexists. split; [reflexivity|].
      intros f rest Hf. fuel2 f Hf.
      destruct f as [|[|[|f]]]; [cbn in Hf; lia..|].
      rewrite <- !app_assoc.
      eapply Runs_dec_base with (k := KBytes); [lia | reflexivity |].
      cbn [dec_base].
      eapply Runs_bind; [apply Runs_dec_len; [apply Rl | exact Hwf]|].
      eapply Runs_bind; [apply Runs_read; reflexivity|]. apply Runs_ret.
    - (* list *)
      cbn [wf] in Hwf. destruct Hwf as [Hl Hw]. rewrite norm_list_eq in Hn.
      destruct (mapM normv l) as [l'|e] eqn:En; [|discriminate]. cbn [sbind] in Hn.
      inversion Hn; subst; clear Hn.
      destruct (RT_list l H Hw l' En) as [bodies [Eb Rb]].
      pose proof (len_nonneg _ l) as H0.
      destruct (enc_len_dec (len l) ltac:(unfold MAXA, MAXB in *; lia)) as [lb [El Rl]].
      rewrite enc_seq_eq. assert (MAXA <? len l = false) as -> by lia.
      rewrite El. cbn [sbind]. rewrite Eb. cbn [sbind]. eexists. split; [reflexivity|].
      intros f rest Hf. cbn [need] in Hf. pose proof (need_fold_ge3 l) as H3.
      destruct f as [|[|[|[|[|f]]]]]; try lia.
      rewrite <- !app_assoc.
      eapply Runs_dec_base with (k := KSeq); [lia | reflexivity |].
      cbn [dec_base].
      eapply Runs_bind; [apply Runs_dec_len; [apply Rl | exact Hl]|].
      assert (Z.to_nat (len l) = length l') as -> by (rewrite (mapM_length _ _ _ _ _ En); unfold len; lia).
      eapply Runs_bind; [apply Runs_rep; apply Rb|apply Runs_ret].
      intros x Hx. pose proof (need_fold_le l x Hx). lia.
    - (* tuple *)
      cbn [wf] in Hwf. destruct Hwf as [Hl Hw]. rewrite norm_tuple_eq in Hn.
      destruct (mapM normv l) as [l'|e] eqn:En; [|discriminate]. cbn [sbind] in Hn.
      inversion Hn; subst; clear Hn.
      destruct (RT_list l H Hw l' En) as [bodies [Eb Rb]].
      pose proof (len_nonneg _ l) as H0.
      destruct (enc_len_dec (len l) ltac:(unfold MAXA, MAXB in *; lia)) as [lb [El Rl]].
      rewrite enc_tuple_eq, enc_seq_eq. assert (MAXA <? len l = false) as -> by lia.
      rewrite El. cbn [sbind]. rewrite Eb. cbn [sbind]. eexists. split; [reflexivity|].
      intros f rest Hf. cbn [need] in Hf. pose proof (need_fold_ge3 l) as H3.
      destruct f as [|[|[|[|[|f]]]]]; try lia.
      rewrite <- !app_assoc.
      eapply Runs_dec_base with (k := KSeq); [lia | reflexivity |].
      cbn [dec_base].
      eapply Runs_bind; [apply Runs_dec_len; [apply Rl | exact Hl]|].
      assert (Z.to_nat (len l) = length l') as -> by (rewrite (mapM_length _ _ _ _ _ En); unfold len; lia).
      eapply Runs_bind; [apply Runs_rep; apply Rb|apply Runs_ret].
      intros x Hx. pose proof (need_fold_le l x Hx). lia.
    - (* dict *)
      cbn [wf] in Hwf. destruct Hwf as [Hl Hw]. rewrite norm_dict_eq in Hn.
      destruct (mapM norm_pair kv) as [kv'|e] eqn:En; [|discriminate]. cbn [sbind] in Hn.
      destruct (dict_build [] kv') as [d|e] eqn:Ed; [|discriminate]. cbn [sbind] in Hn.
      inversion Hn; subst; clear Hn.
      destruct (RT_dict kv H Hw kv' En) as [bodies [Eb Rb]].
      pose proof (len_nonneg _ kv) as H0.
      destruct (enc_len_dec (len kv) ltac:(unfold MAXA, MAXB in *; lia)) as [lb [El Rl]].
      rewrite enc_dict_eq. assert (MAXA <? len kv = false) as -> by lia.
      rewrite El. cbn [sbind]. rewrite Eb. cbn [sbind]. eexists. split; [reflexivity|].
      intros f rest Hf. cbn [need] in Hf. pose proof (need_foldp_ge3 kv) as H3.
      destruct f as [|[|[|[|[|f]]]]]; try lia.
      rewrite <- !app_assoc.
      eapply Runs_dec_base with (k := KMap); [lia | reflexivity |].
      cbn [dec_base].
      eapply Runs_bind; [apply Runs_dec_len; [apply Rl | exact Hl]|].
      assert (Z.to_nat (len kv) = length kv) as -> by (unfold len; lia).
      eapply Runs_bind; [apply Rb; [|exact Ed]|apply Runs_ret].
      intros p Hp. pose proof (need_foldp_le kv p Hp). lia.
    - (* set *)
      cbn [wf] in Hwf. destruct Hwf as [Hl Hw]. rewrite norm_set_eq in Hn.
      destruct (mapM normv l) as [l'|e] eqn:En; [|discriminate]. cbn [sbind] in Hn.
      destruct (set_build [] l') as [s|e] eqn:Es; [|discriminate]. cbn [sbind] in Hn.
      inversion Hn; subst; clear Hn.
      destruct (RT_list l H Hw l' En) as [bodies [Eb Rb]].
      pose proof (len_nonneg _ l) as H0.
      destruct (enc_len_dec (len l) ltac:(unfold MAXA, MAXB in *; lia)) as [lb [El Rl]].
      rewrite enc_set_eq. assert (MAXA <? len l = false) as -> by lia.
      rewrite El. cbn [sbind]. rewrite Eb. cbn [sbind]. eexists. split; [reflexivity|].
      intros f rest Hf. cbn [need] in Hf. pose proof (need_fold_ge3 l) as H3.
      destruct f as [|[|[|[|[|f]]]]]; try lia.
      rewrite <- !app_assoc.
      eapply Runs_dec_base with (k := KSet); [lia | reflexivity |].
      cbn [dec_base].
      eapply Runs_bind; [apply Runs_dec_len; [apply Rl | exact Hl]|].
      assert (Z.to_nat (len l) = length l') as -> by (rewrite (mapM_length _ _ _ _ _ En); unfold len; lia).
      eapply Runs_bind; [apply Runs_rep; apply Rb|].
      { intros x Hx. pose proof (need_fold_le l x Hx). lia. }
      rewrite Es. eapply Runs_bind; [apply Runs_lift | apply Runs_ret].
    - (* object *)
      cbn [wf] in Hwf. destruct Hwf as [Ht [[defs [Hc Hd]] [Hl Hw]]]. rewrite norm_obj_eq in Hn.
      destruct (mapM normv l) as [l'|e] eqn:En; [|discriminate]. cbn [sbind] in Hn.
      inversion Hn; subst; clear Hn.
      destruct (RT_list l H Hw l' En) as [bodies [Eb Rb]].
      assert (tid_packable t = true) as Hp.
      { unfold tid_ok in Ht. unfold tid_packable. destruct (base_kind t); lia. }
      pose proof (len_nonneg _ l) as H0.
      destruct (enc_int_dec (len l) ltac:(lia)) as [lb [El Rl]].
      rewrite enc_obj_eq, Hp, El. cbn [sbind]. rewrite Eb. cbn [sbind]. eexists. split; [reflexivity|].
      intros f rest Hf. cbn [need] in Hf. pose proof (need_fold_ge3 l) as H3.
      destruct f as [|[|[|[|[|f]]]]]; try lia.
      rewrite <- !app_assoc.
      eapply Runs_dec_cls; [exact Ht | exact Hc |].
      cbn [dec_cls].
      eapply Runs_bind; [apply Rl|]. cbn [as_len].
      assert (len l = len l') as -> by (unfold len; rewrite (mapM_length _ _ _ _ _ En); reflexivity).
      eapply Runs_bind; [apply Runs_dec_fields; [apply Rb | rewrite (mapM_length _ _ _ _ _ En); exact Hd] | apply Runs_ret].
      intros x Hx. pose proof (need_fold_le l x Hx). lia.
    - (* enum *)
      cbn [wf] in Hwf. destruct Hwf as [Ht [[ms [Hc Hm]] [Hh Hw]]]. rewrite norm_enum_eq in Hn.
      destruct (normv v) as [x'|e] eqn:En; [|discriminate]. cbn [sbind] in Hn.
      inversion Hn; subst; clear Hn.
      destruct (IHv x' Hw En) as [bx [Ebx Rx]].
      assert (tid_packable t = true) as Hp.
      { unfold tid_ok in Ht. unfold tid_packable. destruct (base_kind t); lia. }
      rewrite enc_enum_eq, Hp, Hc, Hh, Hm. cbn [sbind]. rewrite Ebx. cbn [sbind].
      eexists. split; [reflexivity|].
      intros f rest Hf. cbn [need] in Hf.
      destruct f as [|[|f]]; try lia.
      rewrite <- !app_assoc.
      eapply Runs_dec_cls; [exact Ht | exact Hc |].
      cbn [dec_cls]. eapply Runs_bind; [apply Rx; lia | apply Runs_ret].
    - (* unsupported *)
      cbn in Hwf. destruct Hwf.
  Qed.

End Dec.
