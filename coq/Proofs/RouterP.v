(* RouterP.v — lemmas about Model/Router.v. *)
From Coq Require Import Lia ZifyBool.
From Model Require Import Base PathJoin Router.
From Proofs Require Import Tac PathJoinP.
Open Scope Z_scope.

Lemma dispatch_404_iff t limited m path :
  router_dispatch t limited m path = D404 <-> limited = false /\ get_route t m path = None.
Proof.
  unfold router_dispatch. destruct limited.
  - split; [discriminate | intros [H _]; discriminate].
  - destruct (get_route t m path) as [[id d]|]; split; try discriminate; auto.
    intros [_ H]; discriminate.
Qed.
