(* RouterP.v — lemmas about Model/Router.v:
   A. the text built by patternToRegex is the printed syntax tree (and when it is a ValueError)
   B. the backtracking matcher on that syntax tree computes the documented rule [spec]
   C. route tables: registration order, first match, 404 *)
From Coq Require Import Lia ZifyBool.
From Model Require Import Base PathJoin Router.
From Proofs Require Import Tac PathJoinP.
Open Scope Z_scope.

(* ------------------------------------------------------------------------------------- *)
(* A. text = printed syntax tree                                                          *)

Definition txt_piece (p : piece) : str :=
  match p with
  | PLit l => T_SL ++ re_escape l
  | POne _ => T_ONE
  | POpt _ => T_OPT
  | PStar _ => T_STAR
  | PPlus _ => T_PLUS
  end.

(* a literal piece that comes out of pattern.split("/") : not empty, no '/' *)
Definition piece_ok (p : piece) : Prop :=
  match p with PLit l => l <> [] /\ slash_free l | _ => True end.

Lemma names_app a b : names (a ++ b) = names a ++ names b.
Proof. induction a as [|[] a IH]; cbn; congruence. Qed.

Lemma ptr_loop_spec parts : forall final re toks,
  ptr_loop parts final re toks =
  if (nwild (map classify parts) + (if final then 1 else 0) <=? 1)%nat
  then Ok (re ++ flat_map txt_piece (map classify parts), toks ++ names (map classify parts))
  else Err EValue.
Proof.
  induction parts as [|p ps IH]; intros final re toks.
  - cbn. destruct final; cbn; rewrite !app_nil_r; reflexivity.
  - cbn [ptr_loop map flat_map nwild names].
    destruct (classify p) eqn:E; cbn [is_wild txt_piece names].
    + rewrite IH. rewrite <- !app_assoc. reflexivity.
    + rewrite IH. rewrite <- !app_assoc. reflexivity.
    + destruct final.
      * replace ((1 + nwild (map classify ps) + 1 <=? 1)%nat) with false by (symmetry; apply Nat.leb_gt; lia). reflexivity.
      * rewrite IH. rewrite <- !app_assoc. cbn [app].
        replace (1 + nwild (map classify ps) + 0)%nat with (nwild (map classify ps) + 1)%nat by lia. reflexivity.
    + destruct final.
      * replace ((1 + nwild (map classify ps) + 1 <=? 1)%nat) with false by (symmetry; apply Nat.leb_gt; lia). reflexivity.
      * rewrite IH. rewrite <- !app_assoc. cbn [app].
        replace (1 + nwild (map classify ps) + 0)%nat with (nwild (map classify ps) + 1)%nat by lia. reflexivity.
    + destruct final.
      * replace ((1 + nwild (map classify ps) + 1 <=? 1)%nat) with false by (symmetry; apply Nat.leb_gt; lia). reflexivity.
      * rewrite IH. rewrite <- !app_assoc. cbn [app].
        replace (1 + nwild (map classify ps) + 0)%nat with (nwild (map classify ps) + 1)%nat by lia. reflexivity.
Qed.

Lemma pr_lit l : slash_free l -> flat_map pr_node (map (fun c => NAtom (AChar c)) l) = re_escape l.
Proof.
  induction l as [|c l IH]; intro H; [reflexivity|].
  cbn [map flat_map re_escape pr_node pr_atom]. fold (re_escape l). rewrite IH.
  - unfold pr_char. destruct (c =? SL) eqn:E; [|reflexivity].
    exfalso. apply H. left. apply Z.eqb_eq in E. congruence.
  - intro Hc. apply H. right. exact Hc.
Qed.

Lemma pr_ast_pieces ps : Forall piece_ok ps -> forall i,
  flat_map pr_node (ast_pieces i ps) = flat_map txt_piece ps.
Proof.
  induction 1 as [|p ps Hp _ IH]; intro i; [reflexivity|].
  destruct p; cbn [ast_pieces flat_map txt_piece].
  - rewrite flat_map_app, IH, pr_lit by apply Hp. reflexivity.
  - rewrite IH. reflexivity.
  - rewrite IH. reflexivity.
  - rewrite IH. reflexivity.
  - rewrite IH. reflexivity.
Qed.

Lemma txt_piece_len p : piece_ok p -> (3 <= length (txt_piece p))%nat.
Proof.
  destruct p; try (cbn; lia). intros [Hne _]. destruct s as [|c s]; [congruence|].
  unfold txt_piece, T_SL, re_escape. cbn [flat_map]. rewrite !app_length.
  destruct (special c); cbn [length]; lia.
Qed.

Lemma str_eqb_neq_len a b : length a <> length b -> str_eqb a b = false.
Proof.
  intro H. destruct (str_eqb a b) eqn:E; [|reflexivity]. apply str_eqb_eq in E. congruence.
Qed.

Lemma classify_ok part : part <> [] -> slash_free part -> piece_ok (classify part).
Proof.
  intros Hne Hsf. destruct part as [|c rest]; [congruence|]. unfold classify.
  destruct (c =? COLON); [|cbn; auto].
  destruct (last (c :: rest) 0 =? QM); [exact I|].
  destruct (last (c :: rest) 0 =? STAR); [exact I|].
  destruct (last (c :: rest) 0 =? PLUS); exact I.
Qed.

Lemma parse_pattern_ok pat : Forall piece_ok (parse_pattern pat).
Proof.
  unfold parse_pattern, pattern_parts. apply Forall_forall. intros p Hin.
  apply in_map_iff in Hin. destruct Hin as [part [<- Hin]].
  apply filter_In in Hin. destruct Hin as [Hin Hne].
  apply classify_ok.
  - intros ->. discriminate.
  - pose proof (split_sl_slash_free pat) as F. rewrite Forall_forall in F. apply F, Hin.
Qed.

Lemma pattern_to_regex_spec pat :
  pattern_to_regex pat =
  if (nwild (parse_pattern pat) <=? 1)%nat
  then Ok (pr_regex (ast_of_pieces (parse_pattern pat)), names (parse_pattern pat))
  else Err EValue.
Proof.
  unfold pattern_to_regex. rewrite ptr_loop_spec. fold (parse_pattern pat).
  replace (nwild (parse_pattern pat) + 0)%nat with (nwild (parse_pattern pat)) by lia.
  destruct (nwild (parse_pattern pat) <=? 1)%nat; [|reflexivity].
  pose proof (parse_pattern_ok pat) as Hok.
  rewrite str_eqb_neq_len.
  - unfold pr_regex, ast_of_pieces. rewrite flat_map_app, (pr_ast_pieces _ Hok). cbn [app].
    rewrite <- !app_assoc. reflexivity.
  - destruct Hok as [|p ps Hp _]; cbn; [lia|].
    rewrite !app_length. pose proof (txt_piece_len p Hp). lia.
Qed.

(* ------------------------------------------------------------------------------------- *)
(* B. the matcher on the syntax tree computes the documented rule                         *)

Lemma no_nl_cons x t : no_nl (x :: t) -> x <> NL /\ no_nl t.
Proof. unfold no_nl. cbn. intro H. split; intro; apply H; auto. Qed.

Lemma no_nl_app a b : no_nl (a ++ b) -> no_nl a /\ no_nl b.
Proof. unfold no_nl. intro H. split; intro Hc; apply H, in_or_app; auto. Qed.

Lemma k_end_nonl s cp : no_nl s -> k_end s cp = if is_empty s then Some cp else None.
Proof.
  destruct s as [|x [|y t]]; cbn; intro H; try reflexivity.
  destruct (x =? NL) eqn:E; [|reflexivity].
  exfalso. apply H. left. apply Z.eqb_eq in E. congruence.
Qed.

(* a class that accepts the whole rest of the string: the longest run is tried first *)
Lemma rep_all c k s : forall acc r,
  Forall (fun x => cls_ok c x = true) s -> k (rev acc ++ s) [] = Some r -> rep c k acc s = Some r.
Proof.
  induction s as [|x s IH]; intros acc r HF Hk.
  - cbn. rewrite app_nil_r in Hk. exact Hk.
  - inversion HF; subst. cbn [rep]. rewrite H1. rewrite (IH (x :: acc) r); auto.
    cbn [rev]. rewrite <- app_assoc. exact Hk.
Qed.

(* [^\/] in front of a continuation that fails on every shorter run: exactly the segment *)
Lemma rep_max k g rest : forall acc,
  slash_free g -> (rest = [] \/ exists t, rest = SL :: t) ->
  (forall v x t, g = v ++ x :: t -> k (rev acc ++ v) (x :: t ++ rest) = None) ->
  rep CNotSlash k acc (g ++ rest) = k (rev acc ++ g) rest.
Proof.
  induction g as [|x g IH]; intros acc Hsf Hrest Hfut.
  - cbn [app]. rewrite app_nil_r. destruct Hrest as [->|[t ->]]; [reflexivity|].
    cbn [rep]. unfold cls_ok. rewrite Z.eqb_refl. reflexivity.
  - assert (Hx : x <> SL) by (intro; apply Hsf; left; congruence).
    assert (Hg : slash_free g) by (intro; apply Hsf; right; assumption).
    cbn [app rep]. unfold cls_ok at 1. rewrite (proj2 (Z.eqb_neq x SL) Hx). cbn [negb].
    rewrite IH; auto.
    + replace (rev (x :: acc) ++ g) with (rev acc ++ x :: g) by (cbn [rev]; rewrite <- app_assoc; reflexivity).
      destruct (k (rev acc ++ x :: g) rest) eqn:E; [reflexivity|].
      specialize (Hfut [] x g eq_refl). rewrite app_nil_r in Hfut. exact Hfut.
    + intros v y t ->. specialize (Hfut (x :: v) y t eq_refl).
      cbn [rev]. rewrite <- app_assoc. exact Hfut.
Qed.

(* continuations that can only go on with a '/' or stop at the end of the path *)
Definition nso (f : K) : Prop :=
  forall x t cp, x <> SL -> no_nl (x :: t) -> f (x :: t) cp = None.

Lemma nso_k_end : nso k_end.
Proof. intros x t cp _ H. rewrite k_end_nonl by exact H. reflexivity. Qed.

Lemma nso_tail : nso (m_nodes tail_nodes k_end).
Proof.
  intros x t cp Hx H. unfold tail_nodes. cbn [m_nodes m_atoms]. unfold m_char.
  rewrite (proj2 (Z.eqb_neq x SL) Hx). apply nso_k_end; assumption.
Qed.

Lemma nso_ast ps : forall i, nso (m_nodes (ast_pieces i ps ++ tail_nodes) k_end).
Proof.
  induction ps as [|p ps IH]; intro i; [exact nso_tail|].
  intros x t cp Hx H.
  destruct p; cbn [ast_pieces app m_nodes m_atoms]; unfold m_char;
    rewrite (proj2 (Z.eqb_neq x SL) Hx); try reflexivity; apply IH; assumption.
Qed.

Lemma m_nodes_lit_eq l r k s cp :
  m_nodes (map (fun c => NAtom (AChar c)) l ++ r) k (l ++ s) cp = m_nodes r k s cp.
Proof.
  induction l as [|a l IH]; [reflexivity|].
  cbn [map app m_nodes m_atoms]. unfold m_char. rewrite Z.eqb_refl. exact IH.
Qed.

Lemma m_nodes_lit_neq l : forall g r k rest cp,
  slash_free g -> slash_free l -> g <> l -> (rest = [] \/ exists t, rest = SL :: t) ->
  no_nl (g ++ rest) -> nso (m_nodes r k) ->
  m_nodes (map (fun c => NAtom (AChar c)) l ++ r) k (g ++ rest) cp = None.
Proof.
  induction l as [|y l IH]; intros g r k rest cp Hg Hl Hne Hrest Hnl Hnso.
  - destruct g as [|x g]; [congruence|]. cbn [map app]. apply Hnso; [|exact Hnl].
    intro. apply Hg. left. congruence.
  - assert (Hy : y <> SL) by (intro; apply Hl; left; congruence).
    cbn [map app m_nodes m_atoms]. unfold m_char.
    destruct g as [|x g]; cbn [app].
    + destruct Hrest as [->|[t ->]]; [reflexivity|].
      rewrite (proj2 (Z.eqb_neq SL y)) by congruence. reflexivity.
    + destruct (x =? y) eqn:E; [|reflexivity]. apply Z.eqb_eq in E. subst y.
      apply IH; auto.
      * intro. apply Hg. right. assumption.
      * intro. apply Hl. right. assumption.
      * congruence.
      * apply no_nl_cons in Hnl. apply Hnl.
Qed.

Definition tail_ok (s : str) : bool := is_empty s || str_eqb s [SL].

Lemma tail_spec s cp : no_nl s ->
  m_nodes tail_nodes k_end s cp = if tail_ok s then Some cp else None.
Proof.
  intro H. unfold tail_nodes, tail_ok. cbn [m_nodes m_atoms]. unfold m_char.
  destruct s as [|x t]; [reflexivity|]. cbn [is_empty orb str_eqb].
  destruct (x =? SL) eqn:E.
  - apply no_nl_cons in H. destruct H as [_ Ht]. rewrite (k_end_nonl t) by exact Ht.
    destruct t as [|y t']; cbn; [reflexivity|]. reflexivity.
  - rewrite k_end_nonl by exact H. reflexivity.
Qed.

Lemma render_cons g segs : render (g :: segs) = SL :: g ++ render segs.
Proof. reflexivity. Qed.

Lemma render_starts segs : render segs = [] \/ exists t, render segs = SL :: t.
Proof. destruct segs; [left; reflexivity | right; eexists; reflexivity]. Qed.

Lemma render_join g segs : render (g :: segs) = SL :: join_sl (g :: segs).
Proof.
  revert g. induction segs as [|h segs IH]; intro g.
  - cbn. rewrite app_nil_r. reflexivity.
  - rewrite render_cons, IH. reflexivity.
Qed.

Lemma render_nil_iff segs : render segs = [] <-> segs = [].
Proof. destruct segs; cbn; split; congruence. Qed.

(* capture assignments made by a successful match, group numbers from i upwards *)
Fixpoint bind_caps (i : nat) (vals : list (option str)) (cp : caps) : caps :=
  match vals with
  | [] => cp
  | Some v :: vs => bind_caps (S i) vs ((i, v) :: cp)
  | None :: vs => bind_caps (S i) vs cp
  end.

Definition res_of (i : nat) (o : option (list (option str))) (cp : caps) : option caps :=
  match o with Some vals => Some (bind_caps i vals cp) | None => None end.

Lemma wf_pieces_tl p ps : wf_pieces (p :: ps) = true -> wf_pieces ps = true.
Proof. destruct ps; [reflexivity|]. cbn. intro H. apply andb_true_iff in H. apply H. Qed.

Lemma wf_pieces_wild_last p ps : wf_pieces (p :: ps) = true -> is_wild p = true -> ps = [].
Proof.
  destruct ps; [reflexivity|]. cbn. intros H W. rewrite W in H. discriminate.
Qed.

Lemma tail_ok_render segs :
  tail_ok (render segs) = match segs with [] => true | [e] => is_empty e | _ => false end.
Proof.
  destruct segs as [|e [|f segs]]; [reflexivity| |].
  - cbn. rewrite app_nil_r. destruct e; reflexivity.
  - rewrite render_cons, render_cons. unfold tail_ok. cbn [is_empty orb str_eqb].
    rewrite Z.eqb_refl. destruct e; reflexivity.
Qed.

Lemma tail_ok_after g s : slash_free g -> tail_ok s = false ->
  tail_ok (g ++ s) = false /\ tail_ok (SL :: g ++ s) = false.
Proof.
  intros Hg Hs. destruct g as [|x g].
  - cbn [app]. split; [exact Hs|]. unfold tail_ok in *. cbn [is_empty orb str_eqb]. rewrite Z.eqb_refl.
    destruct s; [discriminate|reflexivity].
  - assert (Hx : x <> SL) by (intro; apply Hg; left; congruence).
    unfold tail_ok. cbn [app is_empty orb str_eqb]. rewrite (proj2 (Z.eqb_neq x SL) Hx), Z.eqb_refl.
    split; reflexivity.
Qed.

Lemma cany_all s : no_nl s -> Forall (fun x => cls_ok CAny x = true) s.
Proof.
  intro H. apply Forall_forall. intros x Hx. unfold cls_ok.
  destruct (x =? NL) eqn:E; [|reflexivity]. apply Z.eqb_eq in E. subst. contradiction.
Qed.

Lemma match_spec ps : wf_pieces ps = true -> Forall piece_ok ps ->
  forall i segs cp, Forall slash_free segs -> no_nl (render segs) ->
  m_nodes (ast_pieces i ps ++ tail_nodes) k_end (render segs) cp = res_of i (spec ps segs) cp.
Proof.
  induction ps as [|p ps IH]; intros Hwf Hok i segs cp Hsf Hnl.
  - (* end of the pattern *)
    cbn [ast_pieces app]. rewrite tail_spec by exact Hnl. rewrite tail_ok_render.
    destruct segs as [|e [|f segs]]; cbn [spec]; try reflexivity. destruct (is_empty e); reflexivity.
  - pose proof (wf_pieces_tl _ _ Hwf) as Hwf'. inversion Hok as [|? ? Hp Hok']; subst.
    specialize (IH Hwf' Hok').
    destruct p as [l|n|n|n|n].
    + (* literal *)
      cbn [ast_pieces spec app]. rewrite <- app_assoc. cbn [m_nodes m_atoms]. unfold m_char.
      destruct segs as [|g segs]; [reflexivity|]. rewrite render_cons, Z.eqb_refl.
      inversion Hsf; subst. rewrite render_cons in Hnl. apply no_nl_cons in Hnl. destruct Hnl as [_ Hnl].
      destruct (str_eqb g l) eqn:E.
      * apply str_eqb_eq in E. subst g. rewrite m_nodes_lit_eq. apply IH; [assumption|].
        apply no_nl_app in Hnl. apply Hnl.
      * apply m_nodes_lit_neq; auto.
        -- apply Hp.
        -- intro; subst. rewrite str_eqb_refl in E. discriminate.
        -- apply render_starts.
        -- apply nso_ast.
    + (* :name *)
      cbn [ast_pieces spec app m_nodes m_atoms]. unfold m_char.
      destruct segs as [|g segs]; [reflexivity|]. rewrite render_cons, Z.eqb_refl.
      inversion Hsf; subst. rewrite render_cons in Hnl. apply no_nl_cons in Hnl. destruct Hnl as [_ Hnl].
      rewrite rep_max; auto.
      * cbn [rev app andb]. destruct (is_empty g); [reflexivity|].
        rewrite IH; [|assumption|apply no_nl_app in Hnl; apply Hnl].
        destruct (spec ps segs); reflexivity.
      * apply render_starts.
      * intros v x t ->. cbn [andb]. destruct (is_empty (rev [] ++ v)); [reflexivity|].
        apply nso_ast.
        -- intro. apply H1. apply in_or_app. right. left. congruence.
        -- rewrite <- app_assoc in Hnl. apply no_nl_app in Hnl. apply Hnl.
    + (* :name? *)
      rewrite (wf_pieces_wild_last _ _ Hwf eq_refl).
      cbn [ast_pieces spec app m_nodes m_atoms]. unfold m_char.
      destruct segs as [|g segs].
      * cbn [render flat_map]. rewrite tail_spec by (intros []). reflexivity.
      * rewrite render_cons, Z.eqb_refl.
        inversion Hsf; subst. pose proof Hnl as Hnl0.
        rewrite render_cons in Hnl. apply no_nl_cons in Hnl. destruct Hnl as [_ Hnl].
        pose proof (no_nl_app _ _ Hnl) as [_ Hnl2].
        rewrite rep_max; auto.
        -- cbn [rev app andb]. rewrite tail_spec by exact Hnl2. rewrite tail_ok_render.
           destruct (tail_ok (render segs)) eqn:T; rewrite tail_ok_render in T.
           ++ destruct segs as [|e [|f segs]]; try discriminate; [reflexivity|].
              rewrite T. reflexivity.
           ++ rewrite T.
              assert (T' : tail_ok (render segs) = false) by (rewrite tail_ok_render; exact T).
              destruct (tail_ok_after g _ H1 T') as [T1 T2].
              rewrite (tail_spec (g ++ render segs)) by exact Hnl. rewrite T1.
              rewrite <- render_cons. rewrite tail_spec by exact Hnl0. rewrite render_cons, T2.
              destruct segs as [|e [|f segs]]; try discriminate; [|reflexivity].
              rewrite T. reflexivity.
        -- apply render_starts.
        -- intros v x t ->. cbn [andb]. apply nso_tail.
           ++ intro. apply H1. apply in_or_app. right. left. congruence.
           ++ rewrite <- app_assoc in Hnl. apply no_nl_app in Hnl. apply Hnl.
    + (* :name* *)
      rewrite (wf_pieces_wild_last _ _ Hwf eq_refl).
      cbn [ast_pieces spec app m_nodes m_atoms]. unfold m_char.
      destruct segs as [|g segs].
      * cbn [render flat_map]. rewrite tail_spec by (intros []). reflexivity.
      * rewrite render_join in *. rewrite Z.eqb_refl.
        apply no_nl_cons in Hnl. destruct Hnl as [_ Hnl].
        rewrite (rep_all CAny _ _ [] ((i, join_sl (g :: segs)) :: cp)); [reflexivity|apply cany_all; exact Hnl|].
        cbn [rev app andb]. rewrite tail_spec by (intros []). reflexivity.
    + (* :name+ *)
      rewrite (wf_pieces_wild_last _ _ Hwf eq_refl).
      cbn [ast_pieces spec app m_nodes m_atoms]. unfold m_char.
      destruct segs as [|g segs]; [reflexivity|].
      rewrite render_join in *. rewrite Z.eqb_refl.
      apply no_nl_cons in Hnl. destruct Hnl as [_ Hnl].
      destruct (join_sl (g :: segs)) as [|c r] eqn:J.
      * (* only a trailing slash *)
        cbn [rep rev]. cbn.
        destruct segs as [|h segs]; [cbn in J; subst g; reflexivity|].
        cbn [join_sl] in J. destruct g; discriminate.
      * rewrite (rep_all CAny _ _ [] ((i, c :: r) :: cp)); [|apply cany_all; exact Hnl|].
        -- destruct segs as [|h segs].
           ++ cbn [join_sl] in J. subst g. reflexivity.
           ++ reflexivity.
        -- cbn [rev app andb is_empty]. rewrite tail_spec by (intros []). reflexivity.
Qed.

(* ---- m.groups() of a successful match ---- *)
Definition caps_lt (i : nat) (cp : caps) : Prop := Forall (fun p => (fst p < i)%nat) cp.

Lemma lookup_lt i cp j : caps_lt i cp -> (i <= j)%nat -> lookup j cp = None.
Proof.
  induction cp as [|[k v] cp IH]; cbn; intros H Hj; [reflexivity|].
  inversion H; subst. cbn in H2.
  destruct (Nat.eqb j k) eqn:E; [apply Nat.eqb_eq in E; lia | apply IH; auto].
Qed.

Lemma caps_lt_S i cp : caps_lt i cp -> caps_lt (S i) cp.
Proof. unfold caps_lt. intro H. eapply Forall_impl; [|exact H]. cbn. intros. lia. Qed.

Lemma lookup_bind vals : forall i cp j, caps_lt i cp ->
  lookup j (bind_caps i vals cp) = if (j <? i)%nat then lookup j cp else nth (j - i) vals None.
Proof.
  induction vals as [|[v|] vs IH]; intros i cp j H.
  - cbn [bind_caps]. destruct (Nat.ltb_spec j i); [reflexivity|].
    rewrite lookup_lt with (i := i) by assumption. destruct (j - i)%nat; reflexivity.
  - cbn [bind_caps]. rewrite IH by (constructor; [cbn; lia | apply caps_lt_S; exact H]).
    destruct (Nat.ltb_spec j (S i)), (Nat.ltb_spec j i); try lia.
    + cbn [lookup]. rewrite (proj2 (Nat.eqb_neq j i)) by lia. reflexivity.
    + assert (j = i) by lia. subst. cbn [lookup]. rewrite Nat.eqb_refl, Nat.sub_diag. reflexivity.
    + replace (j - i)%nat with (S (j - S i)) by lia. reflexivity.
  - cbn [bind_caps]. rewrite IH by (apply caps_lt_S; exact H).
    destruct (Nat.ltb_spec j (S i)), (Nat.ltb_spec j i); try lia.
    + reflexivity.
    + assert (j = i) by lia. subst. rewrite Nat.sub_diag. cbn. apply lookup_lt with (i := i); auto.
    + replace (j - i)%nat with (S (j - S i)) by lia. reflexivity.
Qed.

Lemma map_nth_seq (l : list (option str)) : map (fun j => nth j l None) (seq 0 (length l)) = l.
Proof.
  induction l as [|a l IH]; [reflexivity|].
  cbn [length seq map nth]. f_equal. rewrite <- seq_shift, map_map. exact IH.
Qed.

Lemma groups_bind vals : groups (length vals) (bind_caps 0 vals []) = vals.
Proof.
  unfold groups. transitivity (map (fun j => nth j vals None) (seq 0 (length vals))); [|apply map_nth_seq].
  apply map_ext. intro j.
  rewrite lookup_bind by constructor. cbn. rewrite Nat.sub_0_r. reflexivity.
Qed.

Lemma spec_length ps : wf_pieces ps = true -> forall segs vals,
  spec ps segs = Some vals -> length vals = length (names ps).
Proof.
  induction ps as [|p ps IH]; intros Hwf segs vals H.
  - cbn in H. destruct segs as [|g [|]]; try discriminate.
    + inversion H. reflexivity.
    + destruct (is_empty g); inversion H. reflexivity.
  - pose proof (wf_pieces_tl _ _ Hwf) as Hwf'.
    destruct p as [l|n|n|n|n].
    + cbn in H. destruct segs as [|g segs]; [discriminate|].
      destruct (str_eqb g l); [|discriminate]. cbn. eapply IH; eauto.
    + cbn in H. destruct segs as [|g segs]; [discriminate|].
      destruct (is_empty g); [discriminate|].
      destruct (spec ps segs) eqn:E; [|discriminate]. inversion H; subst. cbn. f_equal. eapply IH; eauto.
    + rewrite (wf_pieces_wild_last _ _ Hwf eq_refl) in *. cbn in H.
      destruct segs as [|g [|e [|]]]; try discriminate; try (inversion H; reflexivity).
      destruct (is_empty e); inversion H. reflexivity.
    + rewrite (wf_pieces_wild_last _ _ Hwf eq_refl) in *. cbn in H.
      destruct segs; inversion H; reflexivity.
    + rewrite (wf_pieces_wild_last _ _ Hwf eq_refl) in *. cbn in H.
      destruct segs as [|g [|]]; try discriminate; try (inversion H; reflexivity).
      destruct (is_empty g); inversion H. reflexivity.
Qed.

Lemma ncaps_cons n r : ncaps (n :: r) = (ncaps_node n + ncaps r)%nat.
Proof. reflexivity. Qed.

Lemma ncaps_lit l r : ncaps (map (fun c => NAtom (AChar c)) l ++ r) = ncaps r.
Proof. induction l as [|c l IH]; [reflexivity|]. cbn [map app]. rewrite ncaps_cons, IH. reflexivity. Qed.

Lemma ncaps_ast ps : forall i, ncaps (ast_pieces i ps ++ tail_nodes) = length (names ps).
Proof.
  induction ps as [|p ps IH]; intro i; [reflexivity|].
  destruct p; cbn [ast_pieces names app length]; rewrite ?ncaps_cons.
  - rewrite <- app_assoc, ncaps_lit, IH. reflexivity.
  - rewrite IH. reflexivity.
  - rewrite IH. reflexivity.
  - rewrite IH. reflexivity.
  - rewrite IH. reflexivity.
Qed.

Lemma re_groups_render ps segs :
  wf_pieces ps = true -> Forall piece_ok ps -> Forall slash_free segs -> no_nl (render segs) ->
  re_groups (ast_of_pieces ps) (render segs) = spec ps segs.
Proof.
  intros Hwf Hok Hsf Hnl. unfold re_groups, re_match, ast_of_pieces.
  rewrite match_spec by assumption. unfold res_of.
  destruct (spec ps segs) as [vals|] eqn:E; [|reflexivity].
  cbn [option_map]. rewrite ncaps_ast, <- (spec_length ps Hwf segs vals E), groups_bind. reflexivity.
Qed.

Lemma render_split t : render (split_sl t) = SL :: t.
Proof.
  induction t as [|c t IH]; [reflexivity|].
  cbn [split_sl]. destruct (c =? SL) eqn:E.
  - apply Z.eqb_eq in E. subst c. rewrite render_cons, IH. reflexivity.
  - pose proof (split_sl_nonempty t) as Hne. destruct (split_sl t) as [|h tl]; [congruence|].
    rewrite render_cons in *. inversion IH as [IH']. cbn [app]. reflexivity.
Qed.

(* B, closed: the regular expression and the documented rule agree, bindings included *)
Lemma re_groups_spec pat path : wf_pat pat = true -> no_nl path ->
  re_groups (ast_of_pieces (parse_pattern pat)) path = spec_path (parse_pattern pat) path.
Proof.
  intros Hwf Hnl. unfold wf_pat in Hwf. pose proof (parse_pattern_ok pat) as Hok.
  unfold spec_path, path_segs. destruct path as [|c t].
  - change (@nil Z) with (render []) at 1. apply re_groups_render; auto.
  - destruct (c =? SL) eqn:E.
    + apply Z.eqb_eq in E. subst c. rewrite <- render_split in *.
      apply re_groups_render; auto. apply split_sl_slash_free.
    + unfold re_groups, re_match, ast_of_pieces. rewrite nso_ast; [reflexivity| |exact Hnl].
      apply Z.eqb_neq. exact E.
Qed.

Lemma wf_nwild ps : wf_pieces ps = true -> (nwild ps <= 1)%nat.
Proof.
  induction ps as [|p ps IH]; [cbn; lia|].
  destruct ps as [|q ps'].
  - intros _. cbn. destruct (is_wild p); lia.
  - intro H. cbn [wf_pieces] in H. apply andb_true_iff in H. destruct H as [H1 H2].
    cbn [nwild] in *. destruct (is_wild p); [discriminate|]. specialize (IH H2). lia.
Qed.

Lemma compile_route_wf pat : wf_pat pat = true ->
  compile_route pat = Ok (ast_of_pieces (parse_pattern pat), names (parse_pattern pat)).
Proof.
  intro H. unfold compile_route. rewrite pattern_to_regex_spec.
  rewrite (proj2 (Nat.leb_le _ _) (wf_nwild _ H)). reflexivity.
Qed.

Lemma route_match_spec pat path : wf_pat pat = true -> no_nl path ->
  route_match pat path = spec_route_match pat path.
Proof.
  intros Hwf Hnl. unfold route_match, spec_route_match.
  rewrite compile_route_wf by exact Hwf. rewrite re_groups_spec by assumption. reflexivity.
Qed.

Lemma compile_route_error pat :
  compile_route pat = Err EValue <-> (2 <= nwild (parse_pattern pat))%nat.
Proof.
  unfold compile_route. rewrite pattern_to_regex_spec.
  destruct (Nat.leb_spec (nwild (parse_pattern pat)) 1); split; intro; try discriminate; try lia; reflexivity.
Qed.

Lemma compile_route_total pat : (exists r, compile_route pat = Ok r) \/ compile_route pat = Err EValue.
Proof.
  unfold compile_route. rewrite pattern_to_regex_spec.
  destruct (nwild (parse_pattern pat) <=? 1)%nat; [left; eexists; reflexivity | right; reflexivity].
Qed.

(* ------------------------------------------------------------------------------------- *)
(* C. route tables                                                                        *)

Definition entry_of (r : route) : entry :=
  {| e_re := ast_of_pieces (parse_pattern (r_pattern r));
     e_toks := names (parse_pattern (r_pattern r));
     e_id := r_id r |}.
Definition entries_of (rs : list route) (m : str) : list entry :=
  map entry_of (filter (fun r => str_eqb m (r_method r)) rs).
Definition tbl_ok (t : table) (rs : list route) : Prop :=
  forall m, tbl_get t m = if supported_method m then Some (entries_of rs m) else None.

Lemma str_eqb_false a b : a <> b -> str_eqb a b = false.
Proof. intro H. destruct (str_eqb a b) eqn:E; [apply str_eqb_eq in E; congruence | reflexivity]. Qed.

Lemma tbl_get_append t m e m' :
  tbl_get (tbl_append t m e) m' =
  if str_eqb m' m then option_map (fun es => es ++ [e]) (tbl_get t m') else tbl_get t m'.
Proof.
  induction t as [|[k es] t IH].
  - cbn. destruct (str_eqb m' m); reflexivity.
  - cbn [tbl_append]. destruct (str_eqb m k) eqn:Emk.
    + apply str_eqb_eq in Emk. subst k. cbn [tbl_get].
      destruct (str_eqb m' m); reflexivity.
    + cbn [tbl_get]. destruct (str_eqb m' k) eqn:E'.
      * apply str_eqb_eq in E'. subst k.
        rewrite str_eqb_false; [reflexivity|]. intro; subst. rewrite str_eqb_refl in Emk. discriminate.
      * exact IH.
Qed.

Lemma empty_table_ok : tbl_ok empty_table [].
Proof.
  intro m. unfold empty_table, supported_method. cbn [tbl_get].
  destruct (str_eqb m M_DELETE); [reflexivity|].
  destruct (str_eqb m M_GET); [reflexivity|].
  destruct (str_eqb m M_POST); [reflexivity|].
  destruct (str_eqb m M_PUT); reflexivity.
Qed.

Definition routes_ok (rs : list route) : Prop :=
  forall r, In r rs -> wf_pat (r_pattern r) = true /\ supported_method (r_method r) = true.

Lemma register_ok rs : forall t rs0, tbl_ok t rs0 -> routes_ok rs ->
  exists t', register_routes t rs = (t', Ok tt) /\ tbl_ok t' (rs0 ++ rs).
Proof.
  induction rs as [|r rs IH]; intros t rs0 Ht Hrs.
  - exists t. rewrite app_nil_r. split; [reflexivity|exact Ht].
  - destruct (Hrs r (or_introl eq_refl)) as [Hwf Hm].
    cbn [register_routes]. rewrite compile_route_wf by exact Hwf.
    rewrite (Ht (r_method r)), Hm.
    destruct (IH (tbl_append t (r_method r) (entry_of r)) (rs0 ++ [r])) as [t' [Hreg Hok]].
    + intro m. rewrite tbl_get_append, (Ht m). unfold entries_of.
      rewrite filter_app, map_app. cbn [filter].
      destruct (str_eqb m (r_method r)) eqn:E.
      * apply str_eqb_eq in E. subst m. rewrite Hm. reflexivity.
      * cbn [map]. rewrite app_nil_r. reflexivity.
    + intros r' Hin. apply Hrs. right. exact Hin.
    + exists t'. split; [exact Hreg|]. rewrite <- app_assoc in Hok. exact Hok.
Qed.

Lemma entry_match_spec r path : wf_pat (r_pattern r) = true -> no_nl path ->
  entry_match (entry_of r) path = option_map mkdict (spec_route_match (r_pattern r) path).
Proof.
  intros Hwf Hnl. unfold entry_match, spec_route_match. cbn [entry_of e_re e_toks].
  rewrite <- (re_groups_spec _ _ Hwf Hnl). unfold re_groups.
  destruct (re_match (ast_of_pieces (parse_pattern (r_pattern r))) path); reflexivity.
Qed.

Lemma first_match_spec rs m path : routes_ok rs -> no_nl path ->
  first_match (entries_of rs m) path = spec_get_route rs m path.
Proof.
  intros Hrs Hnl. induction rs as [|r rs IH]; [reflexivity|].
  assert (Hrs' : routes_ok rs) by (intros r' Hin; apply Hrs; right; exact Hin).
  destruct (Hrs r (or_introl eq_refl)) as [Hwf _].
  unfold entries_of in *. cbn [filter spec_get_route].
  destruct (str_eqb m (r_method r)); [|apply IH; exact Hrs'].
  cbn [map first_match]. rewrite entry_match_spec by assumption.
  destruct (spec_route_match (r_pattern r) path); cbn [option_map]; [reflexivity|].
  apply IH. exact Hrs'.
Qed.

Lemma spec_get_route_none rs m path :
  spec_get_route rs m path = None <->
  forall r, In r rs -> str_eqb m (r_method r) = true -> spec_route_match (r_pattern r) path = None.
Proof.
  induction rs as [|r rs IH]; cbn [spec_get_route].
  - split; [intros _ r [] | reflexivity].
  - destruct (str_eqb m (r_method r)) eqn:E.
    + destruct (spec_route_match (r_pattern r) path) eqn:S.
      * split; [discriminate|]. intro H. specialize (H r (or_introl eq_refl) E). congruence.
      * rewrite IH. split.
        -- intros H r' [<-|Hin] Hm; [exact S | apply H; assumption].
        -- intros H r' Hin Hm. apply H; [right; exact Hin | exact Hm].
    + rewrite IH. split.
      * intros H r' [<-|Hin] Hm; [congruence | apply H; assumption].
      * intros H r' Hin Hm. apply H; [right; exact Hin | exact Hm].
Qed.

(* getRoute after registerRoutes on a fresh router = the documented rule over the
   registration order *)
Lemma get_route_spec rs m path : routes_ok rs -> no_nl path ->
  exists t, register_routes empty_table rs = (t, Ok tt) /\
            get_route t m path = spec_get_route rs m path.
Proof.
  intros Hrs Hnl.
  destruct (register_ok rs empty_table [] empty_table_ok Hrs) as [t [Hreg Hok]].
  exists t. split; [exact Hreg|]. cbn [app] in Hok.
  unfold get_route. rewrite (Hok m).
  destruct (supported_method m) eqn:Hm.
  - apply first_match_spec; assumption.
  - symmetry. apply spec_get_route_none. intros r Hin E.
    apply str_eqb_eq in E. subst m. destruct (Hrs r Hin) as [_ H]. congruence.
Qed.

Lemma dispatch_404_iff t limited m path :
  router_dispatch t limited m path = D404 <-> limited = false /\ get_route t m path = None.
Proof.
  unfold router_dispatch. destruct limited.
  - split; [discriminate | intros [H _]; discriminate].
  - destruct (get_route t m path) as [[id d]|]; split; try discriminate; auto.
    intros [_ H]; discriminate.
Qed.

Lemma dispatch_spec rs limited m path : routes_ok rs -> no_nl path ->
  exists t, register_routes empty_table rs = (t, Ok tt) /\
    router_dispatch t limited m path =
    if limited then D429
    else match spec_get_route rs m path with
         | Some (id, d) => DRoute id d
         | None => D404
         end.
Proof.
  intros Hrs Hnl. destruct (get_route_spec rs m path Hrs Hnl) as [t [Hreg Hg]].
  exists t. split; [exact Hreg|]. unfold router_dispatch. rewrite Hg. reflexivity.
Qed.

(* the first registered matching route wins: relational reading of spec_get_route *)
Lemma spec_get_route_first rs m path id d :
  spec_get_route rs m path = Some (id, d) <->
  exists rs1 r rs2 kvs,
    rs = rs1 ++ r :: rs2 /\ r_id r = id /\ r_method r = m /\
    spec_route_match (r_pattern r) path = Some kvs /\ d = mkdict kvs /\
    forall r', In r' rs1 -> r_method r' = m -> spec_route_match (r_pattern r') path = None.
Proof.
  induction rs as [|r rs IH]; cbn [spec_get_route].
  - split; [discriminate|]. intros (rs1 & r & rs2 & kvs & H & _). destruct rs1; discriminate.
  - destruct (str_eqb m (r_method r)) eqn:E.
    + apply str_eqb_eq in E. destruct (spec_route_match (r_pattern r) path) as [kvs|] eqn:S.
      * split.
        -- intro H. inversion H; subst. exists [], r, rs, kvs. repeat split; auto. intros r' [].
        -- intros (rs1 & r0 & rs2 & kvs0 & H & Hid & Hm & Hs & Hd & Hnone).
           destruct rs1 as [|a rs1]; cbn in H; inversion H; subst.
           ++ rewrite S in Hs. inversion Hs; subst. reflexivity.
           ++ rewrite (Hnone a (or_introl eq_refl) eq_refl) in S. discriminate.
      * rewrite IH. split.
        -- intros (rs1 & r0 & rs2 & kvs0 & H & Hrest). subst rs.
           exists (r :: rs1), r0, rs2, kvs0. split; [reflexivity|].
           destruct Hrest as (Hid & Hm & Hs & Hd & Hnone). repeat split; auto.
           intros r' [<-|Hin] Hm'; [exact S | apply Hnone; assumption].
        -- intros (rs1 & r0 & rs2 & kvs0 & H & Hid & Hm & Hs & Hd & Hnone).
           destruct rs1 as [|a rs1]; cbn in H; inversion H; subst.
           ++ congruence.
           ++ exists rs1, r0, rs2, kvs0. repeat split; auto. intros r' Hin. apply Hnone. right. exact Hin.
    + rewrite IH. split.
      * intros (rs1 & r0 & rs2 & kvs0 & H & Hrest). subst rs.
        exists (r :: rs1), r0, rs2, kvs0. split; [reflexivity|].
        destruct Hrest as (Hid & Hm & Hs & Hd & Hnone). repeat split; auto.
        intros r' [<-|Hin] Hm'; [|apply Hnone; assumption].
        rewrite <- Hm' in E. rewrite str_eqb_refl in E. discriminate.
      * intros (rs1 & r0 & rs2 & kvs0 & H & Hid & Hm & Hs & Hd & Hnone).
        destruct rs1 as [|a rs1]; cbn in H; inversion H; subst.
        -- rewrite str_eqb_refl in E. discriminate.
        -- exists rs1, r0, rs2, kvs0. repeat split; auto. intros r' Hin. apply Hnone. right. exact Hin.
Qed.

(* ------------------------------------------------------------------------------------- *)
(* D. [spec] as inference rules                                                           *)

Lemma matches_spec ps segs vals : matches ps segs vals -> spec ps segs = Some vals.
Proof.
  induction 1; cbn [spec]; try reflexivity.
  - rewrite str_eqb_refl. exact IHmatches.
  - destruct g as [|c g]; [congruence|]. cbn [is_empty]. rewrite IHmatches. reflexivity.
  - destruct segs; [congruence|reflexivity].
  - destruct segs as [|g [|h segs]]; [congruence| |reflexivity].
    destruct g; [congruence|reflexivity].
Qed.

Lemma spec_matches ps : wf_pieces ps = true -> forall segs vals,
  spec ps segs = Some vals -> matches ps segs vals.
Proof.
  induction ps as [|p ps IH]; intros Hwf segs vals H.
  - cbn in H. destruct segs as [|g [|]]; try discriminate.
    + inversion H. constructor.
    + destruct g; inversion H. constructor.
  - pose proof (wf_pieces_tl _ _ Hwf) as Hwf'.
    destruct p as [l|n|n|n|n].
    + cbn in H. destruct segs as [|g segs]; [discriminate|].
      destruct (str_eqb g l) eqn:E; [|discriminate]. apply str_eqb_eq in E. subst g.
      constructor. apply IH; assumption.
    + cbn in H. destruct segs as [|g segs]; [discriminate|].
      destruct g as [|c g]; [discriminate|]. cbn [is_empty] in H.
      destruct (spec ps segs) eqn:E; [|discriminate]. inversion H; subst.
      constructor; [discriminate|]. apply IH; assumption.
    + rewrite (wf_pieces_wild_last _ _ Hwf eq_refl) in *. cbn in H.
      destruct segs as [|g [|e [|]]]; try discriminate; try (inversion H; constructor).
      destruct e; inversion H. constructor.
    + rewrite (wf_pieces_wild_last _ _ Hwf eq_refl) in *. cbn in H.
      destruct segs as [|g segs]; inversion H; constructor. discriminate.
    + rewrite (wf_pieces_wild_last _ _ Hwf eq_refl) in *. cbn in H.
      destruct segs as [|g [|h segs]]; try discriminate.
      * destruct g as [|c g]; inversion H. apply (M_plus n [c :: g]); discriminate.
      * inversion H. constructor; discriminate.
Qed.
