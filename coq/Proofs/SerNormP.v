(* SerNormP.v — when does a value survive a trip?  norm succeeds on every well-formed value whose
   dict keys / set elements are scalars or enum members of scalars, all at the same enum depth
   (the syntactic form of "hashable and comparable after decoding"); it is the identity on values
   without tuples whose floats are float32 values and whose keys are pairwise different. *)
From Coq Require Import Lia ZifyBool.
From Model Require Import Base Utf8 Ser.
From Proofs Require Import Tac BytesP Utf8P SerP.
Open Scope Z_scope.

Definition plain_key (v : value) : bool :=
  match v with VNone | VBool _ | VInt _ | VFloat _ | VStr _ | VBytes _ => true | _ => false end.
(* a key at enum depth d: a scalar wrapped in d enum classes *)
Definition key_ok (d : Z) (v : value) : bool := (edepth v =? d) && plain_key (strip v).

Fixpoint keys_ok (v : value) : Prop :=
  match v with
  | VList l | VTuple l | VObj _ l => fold_right (fun x P => keys_ok x /\ P) True l
  | VDict kv =>
      (exists d, forallb (fun p => key_ok d (fst p)) kv = true)
      /\ fold_right (fun p P => keys_ok (snd p) /\ P) True kv
  | VSet l => exists d, forallb (key_ok d) l = true
  | VEnum _ x => keys_ok x
  | _ => True
  end.

Lemma core_eq_plain : forall a b, plain_key a = true -> plain_key b = true -> exists e, core_eq a b = SOk e.
Proof. intros a b Ha Hb. destruct a, b; try discriminate; cbn; eauto. Qed.

Lemma py_eq_ok : forall d a b, key_ok d a = true -> key_ok d b = true -> exists e, py_eq a b = SOk e.
Proof.
  intros d a b Ha Hb. unfold key_ok in *.
  apply andb_prop in Ha. destruct Ha as [Da Pa]. apply andb_prop in Hb. destruct Hb as [Db Pb].
  unfold py_eq. assert (edepth a =? edepth b = true) as -> by lia. apply core_eq_plain; assumption.
Qed.

Definition keys_at (d : Z) (acc : list (value * value)) : Prop := Forall (fun p => key_ok d (fst p) = true) acc.

Lemma dict_set_ok : forall d acc k v, keys_at d acc -> key_ok d k = true ->
  exists acc', dict_set acc k v = SOk acc' /\ keys_at d acc'.
Proof.
  intros d acc k v H Hk. induction H as [|[k0 v0] r H0 Hr IH].
  - eexists. split; [reflexivity|]. constructor; [exact Hk | constructor].
  - cbn [dict_set]. cbn [fst] in H0. destruct (py_eq_ok d k0 k H0 Hk) as [e ->]. cbn [sbind].
    destruct e.
    + eexists. split; [reflexivity|]. constructor; assumption.
    + destruct IH as [r' [-> Hr']]. cbn [sbind]. eexists. split; [reflexivity|]. constructor; assumption.
Qed.

Lemma dict_build_ok : forall d kv acc, keys_at d acc ->
  Forall (fun p => key_ok d (fst p) = true /\ hashable (fst p) = true) kv ->
  exists dd, dict_build acc kv = SOk dd.
Proof.
  intros d kv. induction kv as [|[k v] r IH]; intros acc Ha Hkv.
  - eexists. reflexivity.
  - inversion Hkv as [|? ? [Hk Hh] Hr]; subst. cbn [fst] in *.
    cbn [dict_build]. unfold dict_put. rewrite Hh.
    destruct (dict_set_ok d acc k v Ha Hk) as [acc' [-> Ha']]. cbn [sbind]. apply IH; assumption.
Qed.

Lemma mem_py_ok : forall d x l, key_ok d x = true -> Forall (fun y => key_ok d y = true) l ->
  exists m, mem_py x l = SOk m.
Proof.
  intros d x l Hx H. induction H as [|y r Hy _ IH]; [eexists; reflexivity|].
  cbn [mem_py]. destruct (py_eq_ok d y x Hy Hx) as [e ->]. cbn [sbind]. destruct e; [eauto | exact IH].
Qed.

Lemma set_build_ok : forall d l acc, Forall (fun y => key_ok d y = true) acc ->
  Forall (fun x => key_ok d x = true /\ hashable x = true) l -> exists s, set_build acc l = SOk s.
Proof.
  intros d l. induction l as [|x r IH]; intros acc Ha Hl; [eexists; reflexivity|].
  inversion Hl as [|? ? [Hx Hh] Hr]; subst. cbn [set_build]. unfold set_add. rewrite Hh.
  destruct (mem_py_ok d x acc Hx Ha) as [m ->]. cbn [sbind]. apply IH; [|exact Hr].
  destruct m; [exact Ha|]. apply Forall_app. split; [exact Ha | constructor; [exact Hx | constructor]].
Qed.

Section Norm.
  Variable fc : fconv.
  Variable reg : registry.

  (* a key keeps its shape *)
  Lemma norm_key : forall k, wf fc reg k -> plain_key (strip k) = true ->
    exists k', norm fc k = SOk k' /\ edepth k' = edepth k /\ plain_key (strip k') = true /\ hashable k' = true.
  Proof.
    induction k; intros Hw Hp; try discriminate; try (eexists; repeat split; reflexivity).
    - cbn in Hw. destruct Hw as [w Hw]. cbn [norm]. rewrite Hw. eexists. repeat split; reflexivity.
    - cbn [wf] in Hw. destruct Hw as [_ [_ [_ Hx]]]. cbn [strip] in Hp.
      destruct (IHk Hx Hp) as [x' [En [Hd [Hs Hh]]]].
      rewrite norm_enum_eq, En. cbn [sbind]. eexists. split; [reflexivity|].
      cbn [edepth strip hashable]. repeat split; [lia | exact Hs | exact Hh].
  Qed.

  Lemma norm_key_ok : forall d k, wf fc reg k -> key_ok d k = true ->
    exists k', norm fc k = SOk k' /\ key_ok d k' = true /\ hashable k' = true.
  Proof.
    intros d k Hw Hk. unfold key_ok in Hk. apply andb_prop in Hk. destruct Hk as [Hd Hp].
    destruct (norm_key k Hw Hp) as [k' [En [Hd' [Hs Hh]]]].
    exists k'. split; [exact En|]. split; [|exact Hh]. unfold key_ok. rewrite Hs. lia.
  Qed.

  Definition NT (v : value) : Prop := wf fc reg v -> keys_ok v -> exists nv, norm fc v = SOk nv.

  Lemma NT_list : forall l, Forall NT l ->
    fold_right (fun x P => wf fc reg x /\ P) True l -> fold_right (fun x P => keys_ok x /\ P) True l ->
    exists l', mapM (norm fc) l = SOk l'.
  Proof.
    induction 1 as [|x r Hx _ IH]; intros Hw Hk; [eexists; reflexivity|].
    cbn in Hw, Hk. destruct Hw as [Hwx Hwr]. destruct Hk as [Hkx Hkr].
    destruct (Hx Hwx Hkx) as [nx En]. destruct (IH Hwr Hkr) as [nr Er].
    rewrite mapM_cons, En. cbn [sbind]. rewrite Er. eexists. reflexivity.
  Qed.

  Theorem norm_total : forall v, NT v.
  Proof.
    induction v using value_ind'; unfold NT; intros Hw Hk; try (eexists; reflexivity).
    - cbn in Hw. destruct Hw as [w Hw]. cbn [norm]. rewrite Hw. eexists. reflexivity.
    - cbn [wf] in Hw. cbn [keys_ok] in Hk. destruct Hw as [_ Hw].
      rewrite norm_list_eq. destruct (NT_list l H Hw Hk) as [l' ->]. eexists. reflexivity.
    - cbn [wf] in Hw. cbn [keys_ok] in Hk. destruct Hw as [_ Hw].
      rewrite norm_tuple_eq. destruct (NT_list l H Hw Hk) as [l' ->]. eexists. reflexivity.
    - (* dict *)
      cbn [wf] in Hw. cbn [keys_ok] in Hk. destruct Hw as [_ Hw]. destruct Hk as [[d Hd] Hk].
      rewrite norm_dict_eq.
      assert (exists kv', mapM (norm_pair fc) kv = SOk kv' /\
                Forall (fun p => key_ok d (fst p) = true /\ hashable (fst p) = true) kv') as [kv' [-> Hkv']].
      { clear - H Hw Hd Hk. induction H as [|[k x] r [_ Hx] _ IH]; [eexists; split; [reflexivity | constructor]|].
        cbn [fold_right forallb fst snd] in *. destruct Hw as [Hwk [Hwx Hwr]]. destruct Hk as [Hkx Hkr].
        apply andb_prop in Hd. destruct Hd as [Hdk Hdr].
        destruct (norm_key_ok d k Hwk Hdk) as [k' [Ek [Hk' Hh']]].
        destruct (Hx Hwx Hkx) as [x' Ex]. destruct (IH Hwr Hdr Hkr) as [r' [Er Hr']].
        rewrite mapM_cons. cbn [norm_pair]. rewrite Ek. cbn [sbind]. rewrite Ex. cbn [sbind]. rewrite Er.
        eexists. split; [reflexivity|]. constructor; [cbn [fst]; split; assumption | exact Hr']. }
      cbn [sbind]. destruct (dict_build_ok d kv' [] (Forall_nil _) Hkv') as [dd ->]. eexists. reflexivity.
    - (* set *)
      cbn [wf] in Hw. cbn [keys_ok] in Hk. destruct Hw as [_ Hw]. destruct Hk as [d Hd].
      rewrite norm_set_eq.
      assert (exists l', mapM (norm fc) l = SOk l' /\
                Forall (fun x => key_ok d x = true /\ hashable x = true) l') as [l' [-> Hl']].
      { clear - Hw Hd. induction l as [|x r IH]; [eexists; split; [reflexivity | constructor]|].
        cbn [fold_right forallb] in *. destruct Hw as [Hwx Hwr]. apply andb_prop in Hd. destruct Hd as [Hdx Hdr].
        destruct (norm_key_ok d x Hwx Hdx) as [x' [Ex [Hx' Hh']]]. destruct (IH Hwr Hdr) as [r' [Er Hr']].
        rewrite mapM_cons, Ex. cbn [sbind]. rewrite Er. eexists. split; [reflexivity|].
        constructor; [split; assumption | exact Hr']. }
      cbn [sbind]. destruct (set_build_ok d l' [] (Forall_nil _) Hl') as [s ->]. eexists. reflexivity.
    - cbn [wf] in Hw. cbn [keys_ok] in Hk. destruct Hw as [_ [_ [_ Hw]]].
      rewrite norm_obj_eq. destruct (NT_list l H Hw Hk) as [l' ->]. eexists. reflexivity.
    - cbn [wf] in Hw. cbn [keys_ok] in Hk. destruct Hw as [_ [_ [_ Hw]]].
      rewrite norm_enum_eq. destruct (IHv Hw Hk) as [x' ->]. eexists. reflexivity.
    - destruct Hw.
  Qed.

  (* ---------- values that come back exactly as they were *)
  Fixpoint distinct (l : list value) : Prop :=
    match l with
    | [] => True
    | x :: r => Forall (fun y => py_eq x y = SOk false) r /\ distinct r
    end.

  Fixpoint exact (v : value) : Prop :=
    match v with
    | VNone | VBool _ | VInt _ | VStr _ | VBytes _ => True
    | VFloat b => exists w, to32 fc b = SOk w /\ of32 fc w = b      (* a float32 value *)
    | VList l | VObj _ l => fold_right (fun x P => exact x /\ P) True l
    | VTuple _ => False
    | VDict kv =>
        distinct (map fst kv) /\ forallb (fun p => hashable (fst p)) kv = true
        /\ fold_right (fun p P => exact (fst p) /\ exact (snd p) /\ P) True kv
    | VSet l => distinct l /\ forallb hashable l = true /\ fold_right (fun x P => exact x /\ P) True l
    | VEnum _ x => exact x
    | VUnsup => False
    end.

  Lemma dict_set_fresh : forall acc k v, Forall (fun p => py_eq (fst p) k = SOk false) acc ->
    dict_set acc k v = SOk (acc ++ [(k, v)]).
  Proof.
    intros acc k v H. induction H as [|[k0 v0] r H0 _ IH]; [reflexivity|].
    cbn [dict_set]. cbn [fst] in H0. rewrite H0. cbn [sbind]. rewrite IH. reflexivity.
  Qed.

  Lemma dict_build_distinct : forall kv acc,
    (forall a k, In a acc -> In k (map fst kv) -> py_eq (fst a) k = SOk false) ->
    distinct (map fst kv) -> forallb (fun p => hashable (fst p)) kv = true ->
    dict_build acc kv = SOk (acc ++ kv).
  Proof.
    induction kv as [|[k v] r IH]; intros acc Ha Hd Hh.
    - cbn. rewrite app_nil_r. reflexivity.
    - cbn [map fst distinct forallb] in *. destruct Hd as [Hk Hd]. apply andb_prop in Hh. destruct Hh as [Hhk Hhr].
      cbn [dict_build]. unfold dict_put. rewrite Hhk. rewrite dict_set_fresh.
      + cbn [sbind]. rewrite IH; [rewrite <- app_assoc; reflexivity | | exact Hd | exact Hhr].
        intros a k' Hin Hk'. apply in_app_or in Hin. destruct Hin as [Hin | [<- | []]].
        * apply Ha; [exact Hin | right; exact Hk'].
        * cbn [fst]. rewrite Forall_forall in Hk. apply Hk. exact Hk'.
      + apply Forall_forall. intros a Hin. apply Ha; [exact Hin | left; reflexivity].
  Qed.

  Lemma mem_py_fresh : forall x l, Forall (fun y => py_eq y x = SOk false) l -> mem_py x l = SOk false.
  Proof. intros x l H. induction H as [|y r Hy _ IH]; [reflexivity|]. cbn [mem_py]. rewrite Hy. exact IH. Qed.

  Lemma set_build_distinct : forall l acc,
    (forall a x, In a acc -> In x l -> py_eq a x = SOk false) ->
    distinct l -> forallb hashable l = true -> set_build acc l = SOk (acc ++ l).
  Proof.
    induction l as [|x r IH]; intros acc Ha Hd Hh.
    - cbn. rewrite app_nil_r. reflexivity.
    - cbn [distinct forallb] in *. destruct Hd as [Hx Hd]. apply andb_prop in Hh. destruct Hh as [Hhx Hhr].
      cbn [set_build]. unfold set_add. rewrite Hhx. rewrite mem_py_fresh.
      + cbn [sbind]. rewrite IH; [rewrite <- app_assoc; reflexivity | | exact Hd | exact Hhr].
        intros a y Hin Hy. apply in_app_or in Hin. destruct Hin as [Hin | [<- | []]].
        * apply Ha; [exact Hin | right; exact Hy].
        * rewrite Forall_forall in Hx. apply Hx. exact Hy.
      + apply Forall_forall. intros a Hin. apply Ha; [exact Hin | left; reflexivity].
  Qed.

  Lemma exact_list : forall l, Forall (fun v => exact v -> norm fc v = SOk v) l ->
    fold_right (fun x P => exact x /\ P) True l -> mapM (norm fc) l = SOk l.
  Proof.
    induction 1 as [|x r Hx _ IH]; intro He; [reflexivity|].
    cbn in He. destruct He as [Hex Her]. rewrite mapM_cons, (Hx Hex). cbn [sbind]. rewrite (IH Her). reflexivity.
  Qed.

  Theorem norm_exact : forall v, exact v -> norm fc v = SOk v.
  Proof.
    induction v using value_ind'; intro He; try reflexivity.
    - cbn in He. destruct He as [w [Hw Ho]]. cbn [norm]. rewrite Hw. cbn [sbind]. rewrite Ho. reflexivity.
    - cbn [exact] in He. rewrite norm_list_eq, (exact_list l H He). reflexivity.
    - destruct He.
    - cbn [exact] in He. destruct He as [Hd [Hh Hf]]. rewrite norm_dict_eq.
      assert (mapM (norm_pair fc) kv = SOk kv) as ->.
      { clear - H Hf. induction H as [|[k x] r [Hk Hx] _ IH]; [reflexivity|].
        cbn [fold_right fst snd] in *. destruct Hf as [Hek [Hex Her]].
        rewrite mapM_cons. cbn [norm_pair]. rewrite (Hk Hek). cbn [sbind]. rewrite (Hx Hex). cbn [sbind].
        rewrite (IH Her). reflexivity. }
      cbn [sbind]. rewrite (dict_build_distinct kv [] ltac:(intros a k []) Hd Hh). reflexivity.
    - cbn [exact] in He. destruct He as [Hd [Hh Hf]]. rewrite norm_set_eq, (exact_list l H Hf). cbn [sbind].
      rewrite (set_build_distinct l [] ltac:(intros a k []) Hd Hh). reflexivity.
    - cbn [exact] in He. rewrite norm_obj_eq, (exact_list l H He). reflexivity.
    - cbn [exact] in He. rewrite norm_enum_eq, (IHv He). reflexivity.
    - destruct He.
  Qed.
End Norm.
