(* WsStreamP.v — facts about readFrame / _frameAvailable / the __call__ loop on ARBITRARY buffers
   (not only well-formed streams): the parser is local (it reads exactly the frame that
   _frameAvailable measured), the loop's fuel is never exhausted, and the loop does not depend
   on how the bytes were cut into reads. *)
From Coq Require Import Lia ZifyBool List Bool.
From Model Require Import Base WsFrame.
From Proofs Require Import Tac WsFrameP.
Import ListNotations.
Open Scope Z_scope.

Lemma length_dropZ_le {A} (l : list A) : forall n, (length (dropZ n l) <= length l)%nat.
Proof.
  induction l as [|a l IH]; intro n; cbn; [lia|]. destruct (n <=? 0); cbn; [lia|]. specialize (IH (n - 1)). lia.
Qed.

Lemma len_takeZ {A} (l : list A) : forall n, 0 <= n <= len l -> len (takeZ n l) = n.
Proof.
  induction l as [|a l IH]; intros n H.
  - unfold len in *. cbn in *. lia.
  - cbn [takeZ]. destruct (n <=? 0) eqn:E; [rewrite len_nil; lia|].
    rewrite len_cons in *. rewrite IH; lia.
Qed.

Lemma be_dec_nonneg l : 0 <= be_dec l.
Proof.
  unfold be_dec. assert (H : forall acc, 0 <= acc -> 0 <= fold_left (fun acc b => acc * 256 + Z_of_byte b) l acc).
  { induction l as [|b l IH]; intros acc Ha; cbn; [exact Ha|]. apply IH. pose proof (Z_of_byte_range b). lia. }
  apply H. lia.
Qed.

(* ---------- readFrame, staged ---------- *)
Definition ext_len (lcode : Z) : Z := if lcode =? 126 then 2 else if lcode =? 127 then 8 else 0.
Definition plen_of (lcode : Z) (b : list byte) : Z :=
  if lcode =? 126 then be_dec (takeZ 2 b) else if lcode =? 127 then be_dec (takeZ 8 b) else lcode.
Definition lcode_of (b1 : byte) : Z := Z.land (Z_of_byte b1) 127.
Definition maskadd_of (b1 : byte) : Z := if Z.land (Z_of_byte b1) 128 =? 0 then 0 else 4.

Lemma lcode_nonneg b1 : 0 <= lcode_of b1.
Proof. unfold lcode_of. apply Z.land_nonneg. left. apply Z_of_byte_range. Qed.

Lemma plen_of_nonneg b1 b : 0 <= plen_of (lcode_of b1) b.
Proof.
  unfold plen_of. destruct (lcode_of b1 =? 126); [apply be_dec_nonneg|].
  destruct (lcode_of b1 =? 127); [apply be_dec_nonneg | apply lcode_nonneg].
Qed.

Lemma available_cons b0 b1 b :
  frame_available (b0 :: b1 :: b) =
  (ext_len (lcode_of b1) <=? len b) && (ext_len (lcode_of b1) + maskadd_of b1 + plen_of (lcode_of b1) b <=? len b).
Proof.
  unfold frame_available, ext_len, plen_of, lcode_of, maskadd_of. rewrite !len_cons. cbn [nth].
  pose proof (len_nonneg b) as Hb. replace (1 + (1 + len b) <? 2) with false by lia. cbv zeta.
  destruct (take2 b0 b1 b) as [_ D]. rewrite D.
  destruct (Z.land (Z_of_byte b1) 127 =? 126).
  - destruct (1 + (1 + len b) <? 4) eqn:E; [replace (2 <=? len b) with false by lia; reflexivity|].
    replace (2 <=? len b) with true by lia. cbn [andb]. lia.
  - destruct (Z.land (Z_of_byte b1) 127 =? 127).
    + destruct (1 + (1 + len b) <? 10) eqn:E; [replace (8 <=? len b) with false by lia; reflexivity|].
      replace (8 <=? len b) with true by lia. cbn [andb]. lia.
    + replace (0 <=? len b) with true by lia. cbn [andb]. lia.
Qed.

Lemma available_len2 buf : frame_available buf = true -> exists b0 b1 b, buf = b0 :: b1 :: b.
Proof.
  destruct buf as [|b0 [|b1 b]]; [discriminate | discriminate | eauto].
Qed.

Lemma dropZ_0 {A} (l : list A) : dropZ 0 l = l.
Proof. destruct l; reflexivity. Qed.

(* readFrame on a buffer that holds at least the extended length field, in closed form *)
Definition parse_avail (b0 b1 : byte) (b : list byte) : res frame * list byte :=
  let flags := Z_of_byte b0 in
  let lcode := lcode_of b1 in
  let plen := plen_of lcode b in
  let b2 := dropZ (ext_len lcode) b in
  match opcode_of_Z (Z.land flags 15) with
  | Err e => (Err e, b)
  | Ok op =>
      let mask := if Z.land (Z_of_byte b1) 128 =? 0 then 0 else 1 in
      let key := if mask =? 0 then zero_key else takeZ 4 b2 in
      let b3 := dropZ (maskadd_of b1) b2 in
      let raw := takeZ plen b3 in
      match (if mask =? 0 then Ok raw else mask_payload key raw) with
      | Err e => (Err e, dropZ plen b3)
      | Ok payload =>
          (Ok {| f_fin := Z.shiftr (Z.land flags 128) 7; f_rsv1 := Z.shiftr (Z.land flags 64) 6;
                 f_rsv2 := Z.shiftr (Z.land flags 32) 5; f_rsv3 := Z.shiftr (Z.land flags 16) 4;
                 f_opcode := op; f_mask := mask; f_key := key; f_plen := plen;
                 f_payload := payload |}, dropZ plen b3)
      end
  end.

Lemma parse_avail_eq b0 b1 b : ext_len (lcode_of b1) <= len b -> parse_frame (b0 :: b1 :: b) = parse_avail b0 b1 b.
Proof.
  intro H. unfold parse_frame, parse_avail. destruct (take2 b0 b1 b) as [T Dr]. rewrite T, Dr. clear T Dr.
  destruct (opcode_of_Z (Z.land (Z_of_byte b0) 15)) as [op|e]; [|reflexivity].
  fold (lcode_of b1). unfold ext_len, plen_of, maskadd_of in *. cbv zeta.
  destruct (lcode_of b1 =? 126) eqn:E126.
  - unfold unpack_n. rewrite len_takeZ by lia. cbn [Z.eqb Pos.eqb].
    destruct (Z.land (Z_of_byte b1) 128 =? 0); cbn [Z.eqb]; rewrite ?dropZ_0; reflexivity.
  - destruct (lcode_of b1 =? 127) eqn:E127.
    + unfold unpack_n. rewrite len_takeZ by lia. cbn [Z.eqb Pos.eqb].
      destruct (Z.land (Z_of_byte b1) 128 =? 0); cbn [Z.eqb]; rewrite ?dropZ_0; reflexivity.
    + rewrite !dropZ_0.
      destruct (Z.land (Z_of_byte b1) 128 =? 0); cbn [Z.eqb]; rewrite ?dropZ_0; reflexivity.
Qed.

Lemma maskadd_cases b1 : maskadd_of b1 = 0 \/ maskadd_of b1 = 4.
Proof. unfold maskadd_of. destruct (_ =? 0); auto. Qed.

Lemma ext_len_cases l : ext_len l = 0 \/ ext_len l = 2 \/ ext_len l = 8.
Proof. unfold ext_len. destruct (l =? 126); auto. destruct (l =? 127); auto. Qed.

(* the parser is local: on a buffer that _frameAvailable accepts, what follows the frame is not looked at *)
Lemma parse_avail_app b0 b1 b D :
  frame_available (b0 :: b1 :: b) = true ->
  parse_avail b0 b1 (b ++ D) = (fst (parse_avail b0 b1 b), snd (parse_avail b0 b1 b) ++ D).
Proof.
  rewrite available_cons. intro H. apply andb_true_iff in H. destruct H as [H1 H2].
  pose proof (plen_of_nonneg b1 b) as Hp. pose proof (len_nonneg b) as Hb.
  assert (Hpl : plen_of (lcode_of b1) (b ++ D) = plen_of (lcode_of b1) b).
  { unfold plen_of, ext_len in *. destruct (lcode_of b1 =? 126); [rewrite takeZ_le_app by lia; reflexivity|].
    destruct (lcode_of b1 =? 127); [rewrite takeZ_le_app by lia; reflexivity | reflexivity]. }
  unfold parse_avail. rewrite Hpl. cbv zeta.
  destruct (opcode_of_Z (Z.land (Z_of_byte b0) 15)) as [op|e]; [|reflexivity].
  set (e := ext_len (lcode_of b1)) in *. set (pl := plen_of (lcode_of b1) b) in *.
  assert (He : 0 <= e) by (destruct (ext_len_cases (lcode_of b1)) as [X|[X|X]]; fold e in X; lia).
  rewrite (dropZ_le_app e b D) by lia.
  assert (L2 : len (dropZ e b) = len b - e) by (apply len_dropZ; lia).
  pose proof (maskadd_cases b1) as Hm.
  rewrite (dropZ_le_app (maskadd_of b1) (dropZ e b) D) by lia.
  assert (L3 : len (dropZ (maskadd_of b1) (dropZ e b)) = len b - e - maskadd_of b1) by (rewrite len_dropZ; lia).
  rewrite (takeZ_le_app pl _ D) by lia. rewrite (dropZ_le_app pl _ D) by lia.
  assert (Hk : (if (if Z.land (Z_of_byte b1) 128 =? 0 then 0 else 1) =? 0 then zero_key else takeZ 4 (dropZ e b ++ D))
             = (if (if Z.land (Z_of_byte b1) 128 =? 0 then 0 else 1) =? 0 then zero_key else takeZ 4 (dropZ e b))).
  { unfold maskadd_of in *. destruct (Z.land (Z_of_byte b1) 128 =? 0); cbn [Z.eqb]; [reflexivity|].
    rewrite takeZ_le_app by lia. reflexivity. }
  rewrite Hk.
  match goal with |- context [match ?x with Ok _ => _ | Err _ => _ end] => destruct x end; reflexivity.
Qed.

Lemma parse_local buf D :
  frame_available buf = true ->
  parse_frame (buf ++ D) = (fst (parse_frame buf), snd (parse_frame buf) ++ D).
Proof.
  intro H. destruct (available_len2 buf H) as (b0 & b1 & b & ->).
  pose proof H as H'. rewrite available_cons in H'. apply andb_true_iff in H'. destruct H' as [H1 _].
  cbn [app]. rewrite parse_avail_eq by (rewrite len_app; pose proof (len_nonneg D); lia).
  rewrite parse_avail_eq by lia. apply parse_avail_app, H.
Qed.

(* every iteration of the loop consumes at least the two header bytes *)
Lemma parse_rest_shorter buf : frame_available buf = true -> (length (snd (parse_frame buf)) + 2 <= length buf)%nat.
Proof.
  intro H. destruct (available_len2 buf H) as (b0 & b1 & b & ->).
  rewrite available_cons in H. apply andb_true_iff in H. destruct H as [H1 _].
  rewrite parse_avail_eq by lia. unfold parse_avail. cbv zeta. cbn [length].
  destruct (opcode_of_Z _); [|cbn [snd]; lia].
  pose proof (length_dropZ_le b (ext_len (lcode_of b1))).
  pose proof (length_dropZ_le (dropZ (ext_len (lcode_of b1)) b) (maskadd_of b1)).
  pose proof (length_dropZ_le (dropZ (maskadd_of b1) (dropZ (ext_len (lcode_of b1)) b)) (plen_of (lcode_of b1) b)).
  match goal with |- context [match ?x with Ok _ => _ | Err _ => _ end] => destruct x end; cbn [snd]; lia.
Qed.

(* readFrame raises ValueError / struct.error / IndexError only: never the model's fuel marker *)
Lemma parse_not_recursion buf : fst (parse_frame buf) <> Err ERecursion.
Proof.
  unfold parse_frame. destruct (takeZ 2 buf) as [|b0 [|b1 l]]; cbn [fst]; try discriminate.
  destruct (opcode_of_Z _) as [op|e] eqn:Eo.
  2:{ cbn [fst]. unfold opcode_of_Z in Eo. repeat (destruct (_ =? _) in Eo; try discriminate). congruence. }
  cbv zeta.
  repeat match goal with
         | |- context [if ?c then _ else _] => destruct c
         | |- context [unpack_n ?n ?l] => unfold unpack_n
         | |- context [mask_payload ?k ?r] => unfold mask_payload
         end; cbn [fst]; discriminate.
Qed.

(* ---------- the loop ---------- *)
Definition out0 (e : option err) : wsout := {| o_delivered := []; o_written := []; o_error := e |}.
Definition out_app (a b : wsout) : wsout :=
  {| o_delivered := o_delivered a ++ o_delivered b; o_written := o_written a ++ o_written b; o_error := o_error b |}.

Lemma out_app_0 o : out_app (out0 None) o = o.
Proof. destruct o; reflexivity. Qed.

(* one iteration, with the rest of the loop as a parameter *)
Definition step_result (k : ws -> ws * wsout) (st : ws) : ws * wsout :=
  match parse_frame (w_buf st) with
  | (Err e, rest) => ({| w_buf := rest; w_closed := w_closed st |}, out0 (Some e))
  | (Ok f, rest) =>
      let st1 := {| w_buf := rest; w_closed := w_closed st |} in
      if f_mask f =? 0 then (st1, out0 (Some EOther))
      else if opcode_eqb (f_opcode f) OpText && negb (utf8_valid (f_payload f)) then (st1, out0 (Some EUnicode))
      else
        let closing := opcode_eqb (f_opcode f) OpClose in
        let wr := if closing && negb (w_closed st) then close_bytes else [] in
        let '(st3, o) := k {| w_buf := rest; w_closed := w_closed st || closing |} in
        (st3, {| o_delivered := (f_opcode f, f_payload f) :: o_delivered o;
                 o_written := wr ++ o_written o; o_error := o_error o |})
  end.

Lemma drain_S fuel st : frame_available (w_buf st) = true -> drain (S fuel) st = step_result (drain fuel) st.
Proof. intro H. cbn [drain]. rewrite H. reflexivity. Qed.

Lemma drain_idle fuel st : frame_available (w_buf st) = false -> drain fuel st = (st, out0 None).
Proof. intro H. destruct fuel; cbn [drain]; rewrite H; reflexivity. Qed.

Lemma avail_mono B D : frame_available B = true -> frame_available (B ++ D) = true.
Proof.
  rewrite !frame_available_size. destruct (frame_size B) as [n|] eqn:E; [|discriminate].
  rewrite (frame_size_mono B D n E), len_app. pose proof (len_nonneg D). lia.
Qed.

(* the fuel S (length buffer) of ws_call is never exhausted, and any sufficient fuel gives the same run *)
Lemma drain_fuel_irrelevant f1 : forall f2 st,
  (length (w_buf st) < f1)%nat -> (length (w_buf st) < f2)%nat -> drain f1 st = drain f2 st.
Proof.
  induction f1 as [|f1 IH]; intros f2 st H1 H2; [lia|]. destruct f2 as [|f2]; [lia|].
  destruct (frame_available (w_buf st)) eqn:Ea; [|rewrite !drain_idle by exact Ea; reflexivity].
  rewrite !drain_S by exact Ea. unfold step_result. pose proof (parse_rest_shorter _ Ea) as Hs.
  destruct (parse_frame (w_buf st)) as [[f|e] rest]; cbn [snd] in Hs; [|reflexivity].
  destruct (f_mask f =? 0); [reflexivity|]. destruct (_ && _); [reflexivity|]. cbv zeta.
  rewrite (IH f2) by (cbn [w_buf]; lia). reflexivity.
Qed.

Lemma drain_no_recursion fuel : forall st,
  (length (w_buf st) < fuel)%nat -> o_error (snd (drain fuel st)) <> Some ERecursion.
Proof.
  induction fuel as [|fuel IH]; intros st H; [lia|].
  destruct (frame_available (w_buf st)) eqn:Ea; [|rewrite drain_idle by exact Ea; cbn; discriminate].
  rewrite drain_S by exact Ea. unfold step_result. pose proof (parse_rest_shorter _ Ea) as Hs.
  pose proof (parse_not_recursion (w_buf st)) as Hn.
  destruct (parse_frame (w_buf st)) as [[f|e] rest]; cbn [fst snd] in Hs, Hn.
  - destruct (f_mask f =? 0); [cbn; discriminate|]. destruct (_ && _); [cbn; discriminate|]. cbv zeta.
    match goal with |- context [drain fuel ?s] => specialize (IH s ltac:(cbn [w_buf]; lia)); destruct (drain fuel s) as [st3 o] end.
    exact IH.
  - cbn. congruence.
Qed.

Lemma drain_buf_le fuel : forall st, (length (w_buf (fst (drain fuel st))) <= length (w_buf st))%nat.
Proof.
  induction fuel as [|fuel IH]; intro st.
  - cbn [drain]. destruct (frame_available (w_buf st)); cbn; lia.
  - destruct (frame_available (w_buf st)) eqn:Ea; [|rewrite drain_idle by exact Ea; cbn; lia].
    rewrite drain_S by exact Ea. unfold step_result. pose proof (parse_rest_shorter _ Ea) as Hs.
    destruct (parse_frame (w_buf st)) as [[f|e] rest]; cbn [snd] in Hs; [|cbn; lia].
    destruct (f_mask f =? 0); [cbn; lia|]. destruct (_ && _); [cbn; lia|]. cbv zeta.
    match goal with |- context [drain fuel ?s] => specialize (IH s); destruct (drain fuel s) as [st3 o] end.
    cbn [fst w_buf] in *. lia.
Qed.

(* between two reads (no exception) the buffer never holds a complete frame *)
Lemma drain_settled fuel : forall st,
  (length (w_buf st) < fuel)%nat -> o_error (snd (drain fuel st)) = None ->
  frame_available (w_buf (fst (drain fuel st))) = false.
Proof.
  induction fuel as [|fuel IH]; intros st H; [lia|].
  destruct (frame_available (w_buf st)) eqn:Ea; [|rewrite drain_idle by exact Ea; cbn; intros _; exact Ea].
  rewrite drain_S by exact Ea. unfold step_result. pose proof (parse_rest_shorter _ Ea) as Hs.
  destruct (parse_frame (w_buf st)) as [[f|e] rest]; cbn [snd] in Hs; [|cbn; discriminate].
  destruct (f_mask f =? 0); [cbn; discriminate|]. destruct (_ && _); [cbn; discriminate|]. cbv zeta.
  match goal with |- context [drain fuel ?s] => specialize (IH s ltac:(cbn [w_buf]; lia)); destruct (drain fuel s) as [st3 o] end.
  exact IH.
Qed.

(* more bytes behind the buffer do not change what the loop does with the buffer *)
Lemma drain_app fuel : forall B c D f2 f3,
  (length B < fuel)%nat -> (length (B ++ D) < f2)%nat -> (length (B ++ D) < f3)%nat ->
  drain f2 {| w_buf := B ++ D; w_closed := c |} =
  let '(st1, o1) := drain fuel {| w_buf := B; w_closed := c |} in
  match o_error o1 with
  | Some _ => ({| w_buf := w_buf st1 ++ D; w_closed := w_closed st1 |}, o1)
  | None => let '(st2, o2) := drain f3 {| w_buf := w_buf st1 ++ D; w_closed := w_closed st1 |} in
            (st2, out_app o1 o2)
  end.
Proof.
  induction fuel as [|fuel IH]; intros B c D f2 f3 H1 H2 H3; [lia|].
  destruct (frame_available B) eqn:Ea.
  - destruct f2 as [|f2]; [lia|].
    rewrite (drain_S fuel) by exact Ea. rewrite (drain_S f2) by (apply avail_mono; exact Ea).
    unfold step_result. cbn [w_buf w_closed]. rewrite (parse_local B D Ea).
    pose proof (parse_rest_shorter _ Ea) as Hs.
    destruct (parse_frame B) as [[f|e] rest]; cbn [fst snd] in *; [|reflexivity].
    destruct (f_mask f =? 0); [reflexivity|]. destruct (_ && _); [reflexivity|]. cbv zeta.
    rewrite app_length in *.
    rewrite (IH rest _ D f2 f3) by (rewrite ?app_length; lia).
    destruct (drain fuel _) as [st1 [d1 w1 [e1|]]]; cbn [o_error o_delivered o_written]; [reflexivity|].
    destruct (drain f3 _) as [st2 o2]. unfold out_app. cbn [o_error o_delivered o_written app]. rewrite app_assoc. reflexivity.
  - rewrite (drain_idle (S fuel)) by exact Ea. cbn [o_error w_buf w_closed].
    rewrite (drain_fuel_irrelevant f2 f3) by (cbn [w_buf]; assumption).
    destruct (drain f3 _) as [st2 o2]. rewrite out_app_0. reflexivity.
Qed.

(* ---------- a connection: how the bytes are cut into reads does not matter ---------- *)
Lemma ws_call_app st c D :
  ws_call st (c ++ D) =
  let '(st1, o1) := ws_call st c in
  match o_error o1 with
  | Some _ => ({| w_buf := w_buf st1 ++ D; w_closed := w_closed st1 |}, o1)
  | None => let '(st2, o2) := ws_call st1 D in (st2, out_app o1 o2)
  end.
Proof.
  unfold ws_call at 1 2. rewrite app_assoc.
  rewrite (drain_app (S (length (w_buf st ++ c))) (w_buf st ++ c) (w_closed st) D _ (S (length ((w_buf st ++ c) ++ D))))
    by lia.
  pose proof (drain_buf_le (S (length (w_buf st ++ c))) {| w_buf := w_buf st ++ c; w_closed := w_closed st |}) as Hle.
  destruct (drain (S (length (w_buf st ++ c))) _) as [st1 o1]. cbn [fst w_buf] in Hle.
  destruct (o_error o1); [reflexivity|].
  unfold ws_call. cbn [w_buf w_closed].
  rewrite (drain_fuel_irrelevant (S (length ((w_buf st ++ c) ++ D))) (S (length (w_buf st1 ++ D))))
    by (cbn [w_buf]; rewrite ?app_length in *; lia).
  reflexivity.
Qed.

Lemma ws_call_settled st data :
  o_error (snd (ws_call st data)) = None -> frame_available (w_buf (fst (ws_call st data))) = false.
Proof. unfold ws_call. apply drain_settled. cbn [w_buf]. lia. Qed.

Lemma ws_call_nil st : frame_available (w_buf st) = false -> ws_call st [] = (st, out0 None).
Proof.
  intro H. unfold ws_call. rewrite app_nil_r. rewrite drain_idle by exact H. destruct st; reflexivity.
Qed.

Lemma chunking_irrelevant chunks : forall st,
  frame_available (w_buf st) = false ->
  let '(s1, o1) := ws_feed st chunks in
  let '(s2, o2) := ws_call st (concat chunks) in
  o1 = o2 /\ (o_error o1 = None -> s1 = s2).
Proof.
  induction chunks as [|c cs IH]; intros st Hst.
  - cbn [ws_feed concat]. rewrite ws_call_nil by exact Hst. split; reflexivity.
  - cbn [ws_feed concat]. rewrite ws_call_app.
    pose proof (ws_call_settled st c) as Hs.
    destruct (ws_call st c) as [st1 o1]. cbn [fst snd] in Hs.
    destruct (o_error o1) eqn:Ee.
    + split; [reflexivity|]. intro X. congruence.
    + specialize (IH st1 (Hs eq_refl)).
      destruct (ws_feed st1 cs) as [s2 o2]. destruct (ws_call st1 (concat cs)) as [s2' o2'].
      destruct IH as [-> Hst2]. split; [reflexivity|]. cbn [o_error]. exact Hst2.
Qed.
