(* PackInvP.v — an invariant of every reachable connection state under which packet
   construction cannot raise: queued messages carry 16-bit sequence numbers and real packet
   types, and so do the messages a RetrySender would re-queue.  Preserved by every event. *)
From Coq Require Import Lia ZifyBool.
From RecordUpdate Require Import RecordUpdate.
From Model Require Import Base SeqNum Wire Conn PackEnv.
From Gen Require Import Kernels.
From Proofs Require Import Tac SeqNumP WireP PackP C09P ConnUpdP.
Import RecordSetNotations.
Open Scope Z_scope.
Ltac Zify.zify_post_hook ::= Z.to_euclidean_division_equations.

Definition seq16 (z : Z) : Prop := 0 <= z <= RING.
Definition cb_ok (k : cb) : Prop :=
  match k with Plain _ => True | Retry _ mseq ty _ _ => seq16 mseq /\ ty <> UNKNOWN end.
Definition ocb_ok (o : option cb) : Prop := match o with Some k => cb_ok k | None => True end.
Definition pmsg_ok (m : pmsg) : Prop := seq16 (m_seq m) /\ m_type m <> UNKNOWN /\ ocb_ok (m_cb m).

(* the part of the state the invariant speaks about *)
Definition qv (c : conn) := (c_outgoing c, c_pretry_msg c, c_pcbs c, c_seq_msg c).
Definition qv_ok (q : list pmsg * list (Z * pmsg) * list (Z * list cb) * Z) : Prop :=
  let '(o, r, p, s) := q in
  Forall pmsg_ok o /\ Forall (fun x => pmsg_ok (snd x)) r /\ Forall (fun x => Forall cb_ok (snd x)) p /\ seq16 s.
Definition conn_ok (c : conn) : Prop := qv_ok (qv c).

Lemma conn0_ok b : conn_ok (conn0 b).
Proof. unfold conn_ok, qv, qv_ok, seq16, RING. cbn. repeat split; try constructor; lia. Qed.

Lemma conn_ok_no_unknown c : conn_ok c -> no_unknown c.
Proof.
  intros (Ho & Hr & _ & _) m [H|H].
  - rewrite Forall_forall in Ho. apply (Ho m H).
  - apply in_map_iff in H as (x & <- & Hx). rewrite Forall_forall in Hr. apply (Hr x Hx).
Qed.

(* nested record updates are simplified by REWRITING (ConnUpdP.v), never by conversion *)
Ltac usimp := cbv beta iota zeta; autorewrite with upd.
(* goal conn_ok X' where X' is X under updates of fields the invariant does not mention *)
Ltac same H :=
  let H' := fresh in pose proof H as H'; unfold conn_ok, qv in H'; unfold conn_ok, qv; usimp; exact H'.

(* ---------- dictionaries ---------- *)
Lemma dget_Forall {A} (Q : Z * A -> Prop) k d v : Forall Q d -> dget k d = Some v -> exists k', Q (k', v).
Proof.
  induction 1 as [|[k' v'] d Hq _ IH]; cbn [dget]; [discriminate|].
  destruct (k =? k'); [intros H; injection H as <-; exists k'; exact Hq|exact IH].
Qed.

Lemma ddel_Forall {A} (Q : Z * A -> Prop) k d : Forall Q d -> Forall Q (ddel k d).
Proof.
  unfold ddel. intros H. apply Forall_forall. intros x Hx. apply filter_In in Hx as [Hx _].
  rewrite Forall_forall in H. apply H. exact Hx.
Qed.

Lemma dset_Forall {A} (Q : Z * A -> Prop) k v d : Forall Q d -> Q (k, v) -> Forall Q (dset k v d).
Proof.
  intros H Hq. induction H as [|[k' v'] d Hx Ht IH]; cbn [dset]; [repeat constructor; exact Hq|].
  destruct (k =? k'); constructor; assumption.
Qed.

Lemma fold_ddel_Forall {A} (Q : Z * A -> Prop) ks : forall d, Forall Q d -> Forall Q (fold_left (fun d m => ddel m d) ks d).
Proof. induction ks as [|k ks IH]; intros d H; [exact H|]. cbn [fold_left]. apply IH. apply ddel_Forall. exact H. Qed.

(* ---------- sending ---------- *)
Lemma mk_cb_ok r k rid mseq ty p : seq16 mseq -> ty <> UNKNOWN -> ocb_ok (mk_cb r k rid mseq ty p).
Proof. intros. unfold mk_cb. destruct r; [destruct k; exact I|destruct k; exact I|split; assumption]. Qed.

Lemma send_type_ok c ty p r k : conn_ok c -> ty <> UNKNOWN -> conn_ok (send_type c ty p r k).
Proof.
  intros (Ho & Hr & Hp & Hs) Hty. unfold conn_ok, qv, send_type. usimp. unfold qv_ok.
  assert (Hq : seq16 (seq_succ (c_seq_msg c))) by (pose proof (seq_succ_range (c_seq_msg c) Hs); unfold seq16; lia).
  split; [|split; [exact Hr|split; [exact Hp|exact Hq]]].
  apply Forall_app. split; [exact Ho|]. constructor; [|constructor].
  split; [exact Hq|]. split; [exact Hty|]. apply mk_cb_ok; assumption.
Qed.

Lemma send_frags_ok frags : forall c fid n r i, conn_ok c -> conn_ok (send_frags c fid n r i frags).
Proof.
  induction frags as [|f frags IH]; intros c fid n r i H; [exact H|]. cbn [send_frags].
  apply IH. apply send_type_ok; [exact H|discriminate].
Qed.

Lemma send_ok e c p r k : conn_ok c -> conn_ok (fst (send e c p r k)).
Proof.
  intros H. unfold send. destruct (negb _); [exact H|].
  destruct (len p >? e_max_payload e).
  - destruct (len p >? _); cbn [fst].
    + same H.
    + cbv zeta.
      match goal with |- conn_ok (?X <| c_pfrags := _ |>) => assert (HX : conn_ok X); [|same HX] end.
      apply send_frags_ok. same H.
  - cbn [fst]. apply send_type_ok; [exact H|discriminate].
Qed.

Lemma disconnect_ok c k : conn_ok c -> conn_ok (disconnect c k).
Proof.
  intros H. unfold disconnect.
  destruct (status_eqb (c_status c) CONNECTED || status_eqb (c_status c) DISCONNECTING).
  - match goal with |- conn_ok (?X <| c_status := DISCONNECTED |>) => assert (HX : conn_ok X); [|same HX] end.
    apply send_type_ok; [|discriminate]. destruct H as (_ & Hr & _ & Hs).
    unfold conn_ok, qv. usimp. unfold qv_ok. repeat split; try constructor; try exact Hr; apply Hs.
  - same H.
Qed.

(* ---------- callbacks ---------- *)
Lemma fire_icb_ok c k ok : conn_ok c -> conn_ok (fst (fire_icb c k ok)).
Proof.
  intros H. destruct k; cbn [fire_icb fst]; try exact H.
  destruct (dget fid (c_pfrags c)); [|exact H]. destruct (forallb _ _); cbn [fst]; same H.
Qed.

Lemma fire_cb_ok c k ok : conn_ok c -> cb_ok k -> conn_ok (fst (fire_cb c k ok)).
Proof.
  intros H Hk. destruct k as [i|rid mseq ty p i]; cbn [fire_cb].
  - apply fire_icb_ok. exact H.
  - destruct (zmem _ _); [exact H|]. destruct (negb ok).
    + destruct H as (Ho & Hr & Hp & Hs). destruct Hk as [Hk1 Hk2]. cbn [fst].
      unfold conn_ok, qv. usimp. unfold qv_ok. split; [|split; [exact Hr|split; [exact Hp|exact Hs]]].
      apply Forall_app. split; [exact Ho|]. constructor; [|constructor].
      split; [exact Hk1|]. split; [exact Hk2|]. split; assumption.
    + apply fire_icb_ok. same H.
Qed.

Lemma fire_all_ok ks : forall c ok, conn_ok c -> Forall cb_ok ks -> conn_ok (fst (fire_all c ks ok)).
Proof.
  induction ks as [|k ks IH]; intros c ok H Hk; [exact H|]. cbn [fire_all].
  inversion Hk as [|? ? Hk1 Hk2]; subst.
  pose proof (fire_cb_ok c k ok H Hk1) as H1. destruct (fire_cb c k ok) as [c1 o1]. cbn [fst] in H1.
  pose proof (IH c1 ok H1 Hk2) as H2. destruct (fire_all c1 ks ok) as [c2 o2]. exact H2.
Qed.

Lemma resolve_ok ok c s : conn_ok c -> conn_ok (fst (resolve ok c s)).
Proof.
  intros H. unfold resolve.
  match goal with |- context [if ok then ?A else ?B] => set (c0 := if ok then A else B) end.
  assert (H0 : conn_ok c0) by (unfold c0; destruct ok; same H).
  clearbody c0.
  assert (H1 : conn_ok (fst (match dget s (c_pcbs c0) with
                              | Some ks => let '(c', o) := fire_all c0 ks ok in (c' <| c_pcbs := ddel s (c_pcbs c') |>, o)
                              | None => (c0, [])
                              end))).
  { destruct (dget s (c_pcbs c0)) as [ks|] eqn:Eg; [|exact H0].
    assert (Hks : Forall cb_ok ks).
    { destruct H0 as (_ & _ & Hp & _). destruct (dget_Forall _ _ _ _ Hp Eg) as [k' Hq]. exact Hq. }
    pose proof (fire_all_ok ks c0 ok H0 Hks) as H1. destruct (fire_all c0 ks ok) as [c' o]. cbn [fst] in *.
    destruct H1 as (Ho & Hr & Hp & Hs). unfold conn_ok, qv. usimp. unfold qv_ok.
    split; [exact Ho|split; [exact Hr|split; [apply ddel_Forall; exact Hp|exact Hs]]]. }
  destruct (match dget s (c_pcbs c0) with Some _ => _ | None => _ end) as [c1 o1]. cbn [fst] in H1.
  cbv zeta. cbn [fst].
  destruct (dget s (c_pretry c1)) as [mseqs|].
  - destruct H1 as (Ho & Hr & Hp & Hs). unfold conn_ok, qv. usimp. unfold qv_ok.
    split; [exact Ho|split; [apply fold_ddel_Forall; exact Hr|split; [exact Hp|exact Hs]]].
  - same H1.
Qed.

Lemma ack_loop_ok h snap : forall c, conn_ok c -> conn_ok (fst (ack_loop c h snap)).
Proof.
  induction snap as [|[s t] r IH]; intros c H; [exact H|]. cbn [ack_loop].
  assert (H1 : conn_ok (fst (if hdr_acks (h_ack h) (h_ackbits h) s then resolve true c s
                              else if c_last_recv c - t >? c_out_timeout c then resolve false c s else (c, [])))).
  { destruct (hdr_acks _ _ _); [apply resolve_ok; exact H|]. destruct (_ >? _); [apply resolve_ok; exact H|exact H]. }
  match type of H1 with conn_ok (fst ?X) => destruct X as [c1 o1] end. cbn [fst] in H1.
  pose proof (IH c1 H1) as H2. destruct (ack_loop c1 h r) as [c2 o2]. exact H2.
Qed.

Lemma timeout_loop_ok strict now snap : forall c, conn_ok c -> conn_ok (fst (timeout_loop strict c now snap)).
Proof.
  induction snap as [|[s t] r IH]; intros c H; [exact H|]. cbn [timeout_loop].
  assert (H1 : conn_ok (fst (if (if strict then now - t >? c_out_timeout c else now - t >=? c_out_timeout c)
                              then resolve false c s else (c, [])))).
  { destruct (if strict then _ else _); [apply resolve_ok; exact H|exact H]. }
  match type of H1 with conn_ok (fst ?X) => destruct X as [c1 o1] end. cbn [fst] in H1.
  pose proof (IH c1 H1) as H2. destruct (timeout_loop strict c1 now r) as [c2 o2]. exact H2.
Qed.

(* ---------- packet assembly ---------- *)
Lemma Interleave_Forall {A} (Q : A -> Prop) a b l : Interleave a b l -> Forall Q l -> Forall Q a /\ Forall Q b.
Proof.
  induction 1 as [|x a b l Hi IH|x a b l Hi IH]; intros HF.
  - split; constructor.
  - inversion HF; subst. destruct (IH ltac:(assumption)). split; [constructor|]; assumption.
  - inversion HF; subst. destruct (IH ltac:(assumption)). split; [|constructor]; assumption.
Qed.

Lemma retry_pass_prm (Q : Z * pmsg -> Prop) e now delay items : forall prm msgs cur prm' msgs' cur',
  retry_pass e now delay items prm msgs cur = (prm', msgs', cur') -> Forall Q prm -> Forall Q prm'.
Proof.
  induction items as [|[ms m] r IH]; intros prm msgs cur prm' msgs' cur' E H; cbn [retry_pass] in E.
  - injection E as <- _ _. exact H.
  - destruct (_ <? _); [eapply IH; eassumption|].
    destruct (fits _ _ _ _); [|eapply IH; eassumption].
    eapply IH; [eassumption|]. apply ddel_Forall. exact H.
Qed.

Lemma stamp_ok now m : pmsg_ok m -> pmsg_ok (stamp now m).
Proof. intros H. exact H. Qed.

Lemma opt_list_cbs ms : Forall pmsg_ok ms -> Forall cb_ok (opt_list (map m_cb ms)).
Proof.
  induction 1 as [|m ms (_ & _ & Hc) _ IH]; [constructor|]. cbn [map opt_list].
  destruct (m_cb m); [constructor; assumption|exact IH].
Qed.

Lemma fold_dset_Forall (Q : Z * pmsg -> Prop) ms : forall d,
  Forall Q d -> Forall (fun m => Q (m_seq m, m)) ms -> Forall Q (fold_left (fun d m => dset (m_seq m) m d) ms d).
Proof.
  induction ms as [|m ms IH]; intros d Hd Hm; [exact Hd|]. cbn [fold_left]. inversion Hm; subst.
  apply IH; [apply dset_Forall; assumption|assumption].
Qed.

(* the messages build_impl puts into a packet are queued ones *)
Lemma build_impl_msgs_ok e c now ka delay c' h ms :
  conn_ok c -> build_impl e c now ka delay = (c', Some (h, ms)) -> Forall pmsg_ok ms.
Proof.
  intros H E. destruct (pack_total_build _ _ _ _ _ _ _ (conn_ok_no_unknown _ H) E) as (fr & fo & Hil & Hfr & -> & _).
  destruct H as (Ho & Hr & _ & _).
  apply Forall_forall. intros m Hm. apply in_map_iff in Hm as (m0 & <- & Hm0). apply stamp_ok.
  apply in_app_or in Hm0 as [Hm0|Hm0].
  - apply Hfr in Hm0. apply in_map_iff in Hm0 as (x & <- & Hx). rewrite Forall_forall in Hr. apply (Hr x Hx).
  - rewrite Forall_forall in Ho. apply Ho. apply (Interleave_in_l _ _ _ _ Hil Hm0).
Qed.

Lemma build_impl_ok e c now ka delay : conn_ok c -> conn_ok (fst (build_impl e c now ka delay)).
Proof.
  intros H. destruct (build_impl e c now ka delay) as [c' r] eqn:E. cbn [fst].
  pose proof H as (Ho & Hr & Hp & Hs).
  unfold build_impl in E.
  destruct (match c_pretry_msg c with [] => _ | _ => _ end) as [[prm msgs0] cur0] eqn:E0.
  assert (H0 : packed_ok e msgs0 cur0 /\ Forall (fun x => pmsg_ok (snd x)) prm /\ Forall pmsg_ok msgs0).
  { destruct (c_pretry_msg c) eqn:Ep.
    - injection E0 as <- <- <-. split; [apply packed_ok_nil|split; constructor].
    - destruct (retry_pass_spec _ _ _ _ _ _ _ _ _ _ (packed_ok_nil e) E0) as (ch & -> & Hk & Hin).
      split; [exact Hk|]. split; [eapply retry_pass_prm; [exact E0|exact Hr]|].
      apply Forall_forall. intros m Hm. cbn [app] in Hm. apply Hin in Hm. apply sort_items_in in Hm.
      apply in_map_iff in Hm as (x & <- & Hx). rewrite Forall_forall in Hr. apply (Hr x Hx). }
  destruct H0 as (Hok0 & Hprm & Hm0).
  destruct (out_pass e (c_outgoing c) msgs0 cur0) as [[rem msgs] cu] eqn:E1.
  destruct (out_pass_spec _ _ _ _ _ _ _ Hok0 E1) as (ch & Hms & Hil & _).
  destruct (Interleave_Forall pmsg_ok _ _ _ Hil Ho) as [Hch Hrem].
  assert (Hmsgs : Forall pmsg_ok msgs) by (rewrite Hms; apply Forall_app; split; assumption).
  match type of E with (if ?b then _ else _) = _ => destruct b end.
  - injection E as <- _. unfold conn_ok, qv. usimp. unfold qv_ok. split; [|split; [|split]]; assumption.
  - injection E as <- _.
    set (retr := filter (fun m => negb (retry_is_none (m_retry m))) (map (stamp now) msgs)).
    assert (Hretr : Forall pmsg_ok retr).
    { apply Forall_forall. intros m Hm. apply filter_In in Hm as [Hm _]. apply in_map_iff in Hm as (m0 & <- & Hm0').
      apply stamp_ok. rewrite Forall_forall in Hmsgs. apply Hmsgs. exact Hm0'. }
    assert (Hnew : Forall (fun x => pmsg_ok (snd x)) (fold_left (fun d m => dset (m_seq m) m d) retr prm)).
    { apply fold_dset_Forall; [exact Hprm|]. eapply Forall_impl; [|exact Hretr]. intros m Hm. exact Hm. }
    pose proof (opt_list_cbs msgs Hmsgs) as Hcbs.
    destruct (opt_list (map m_cb msgs)) as [|k0 ks] eqn:Ecb; destruct retr as [|r0 rs] eqn:Er;
      unfold conn_ok, qv; usimp; unfold qv_ok; (split; [|split; [|split]]); try assumption;
      apply dset_Forall; assumption.
Qed.

Lemma build_packet_ok e c now : conn_ok c -> conn_ok (fst (build_packet e c now)).
Proof.
  intros H. unfold build_packet. destruct (_ <? _); [exact H|].
  pose proof (build_impl_ok e c now (now - c_last_ka c >? c_ka_interval c) (c_ka_interval c) H) as H1.
  destruct (build_impl _ _ _ _ _) as [c1 [pk|]]; cbn [fst] in *; [|exact H1].
  same H1.
Qed.

(* ---------- receiving ---------- *)
Lemma recv_fragment_ok c now mseq frag : conn_ok c -> conn_ok (fst (recv_fragment c now mseq frag)).
Proof.
  intros H. unfold recv_fragment. destruct (_ <? _)%nat; [exact H|]. cbv zeta.
  destruct (fr_complete _); cbn [fst]; unfold recv_app; same H.
Qed.

Lemma recv_handshake_ok c ty o : conn_ok c -> conn_ok (fst (recv_handshake c ty o)).
Proof.
  intros H. unfold recv_handshake.
  destruct ty, (c_server c); try exact H.
  - (* client hello, server *)
    destruct (negb _); [exact H|]. destruct (negb _); [exact H|]. cbn [fst]. cbv zeta.
    apply send_type_ok; [|discriminate]. same H.
  - (* server hello, client *)
    destruct (_ =? 6); [cbn [fst]; same H|].
    destruct (negb _); [exact H|]. cbn [fst]. cbv zeta.
    match goal with |- conn_ok (?X <| c_status := _ |> <| c_hello_sent := _ |>) => assert (HX : conn_ok X); [|same HX] end.
    apply send_type_ok; [|discriminate]. same H.
  - (* challenge response, server *)
    destruct (negb _); [exact H|]. destruct (o_temp_token o); [|exact H].
    destruct (_ =? _); [|exact H]. cbn [fst]. same H.
Qed.

Lemma recv_msgs_ok now ms : forall c orcs, conn_ok c -> conn_ok (fst (recv_msgs c now ms orcs)).
Proof.
  induction ms as [|m ms IH]; intros c orcs H; [exact H|]. cbn [recv_msgs].
  destruct (bf_insert (c_bf_msg c) (w_seq m)) as [bf|]; [|apply IH; exact H].
  set (c0 := c <| c_bf_msg := bf |>).
  assert (H0 : conn_ok c0) by (unfold c0; same H). clearbody c0.
  assert (H1 : forall c1 o1 orcs',
    match w_type m with
    | APP => (recv_app c0 (w_seq m) (w_payload m), [], orcs)
    | APP_FRAGMENT => let '(c', o') := recv_fragment c0 now (w_seq m) (w_payload m) in (c', o', orcs)
    | DISCONNECT => (c0 <| c_status := DISCONNECTING |>, [], orcs)
    | KEEP_ALIVE | UNKNOWN => (c0, [], orcs)
    | t => let '(c', o') := recv_handshake c0 t (hd no_oracle orcs) in (c', o', tl orcs)
    end = (c1, o1, orcs') -> conn_ok c1).
  { intros c1 o1 orcs'. destruct (w_type m);
      try (intros E; injection E as <- _ _; first [exact H0|unfold recv_app; same H0]);
      try (match goal with |- context [recv_handshake c0 ?t ?o] =>
             pose proof (recv_handshake_ok c0 t o H0) as Hh; destruct (recv_handshake c0 t o) as [c' o'] end;
           intros E; injection E as <- _ _; exact Hh).
    pose proof (recv_fragment_ok c0 now (w_seq m) (w_payload m) H0) as Hf.
    destruct (recv_fragment c0 now (w_seq m) (w_payload m)) as [c' o']. intros E; injection E as <- _ _.
    exact Hf. }
  destruct (match w_type m with APP => _ | _ => _ end) as [[c1 o1] orcs'] eqn:E1.
  specialize (H1 _ _ _ eq_refl).
  destruct (raised o1); [exact H1|].
  pose proof (IH c1 orcs' H1) as H2. destruct (recv_msgs c1 now ms orcs') as [c2 o2]. exact H2.
Qed.

Lemma recv_ok c now d orcs : conn_ok c -> conn_ok (fst (recv c now d orcs)).
Proof.
  intros H. unfold recv. destruct (keyless_refuses _ _); [cbn [fst]; same H|].
  destruct (open_dgram _ _) as [ms|]; [|cbn [fst]; same H].
  destruct (bf_insert _ _) as [bf|]; [|cbn [fst]; same H].
  match goal with |- context [handle_ack_bits ?X] => set (c0 := X) end.
  assert (H0 : conn_ok c0) by (unfold c0; same H). clearbody c0. cbv zeta.
  pose proof (ack_loop_ok (d_hdr d) (c_packs c0) c0 H0) as H1. unfold handle_ack_bits.
  destruct (ack_loop c0 (d_hdr d) (c_packs c0)) as [c1 o1]. cbn [fst] in H1.
  pose proof (recv_msgs_ok now ms c1 orcs H1) as H2. destruct (recv_msgs c1 now ms orcs) as [c2 o2]. exact H2.
Qed.

(* ---------- periodic work, events ---------- *)
Lemma client_update_ok c now : conn_ok c -> conn_ok (fst (client_update c now)).
Proof.
  intros H. unfold client_update.
  match goal with |- context [if ?b then c <| c_status := DROPPED |> else c] =>
    set (c0 := if b then c <| c_status := DROPPED |> else c);
    assert (H0 : conn_ok c0) by (unfold c0; destruct b; [same H|exact H]); clearbody c0 end.
  match goal with |- context [if ?b then _ else (c0, [])] => destruct b end; [|exact H0].
  cbn [fst]. same H0.
Qed.

Lemma client_tick_ok e c now r : conn_ok c -> conn_ok (fst (client_tick e c now r)).
Proof.
  intros H. unfold client_tick.
  pose proof (client_update_ok c now H) as H0. destruct (client_update c now) as [c0 o0]. cbn [fst] in H0.
  destruct (status_eqb _ _); [exact H0|].
  assert (H1 : forall c1 o1, match r with
               | RxNone => (c0, [])
               | RxBadHeader er => (c0, [ORaise er])
               | RxDgram d orcs => let '(c', o') := recv c0 now d orcs in
                   (c', filter (fun x => match x with ORet _ => false | _ => true end) o')
               end = (c1, o1) -> conn_ok c1).
  { intros c1 o1. destruct r as [|er|d orcs]; try (intros E; injection E as <- _; exact H0).
    pose proof (recv_ok c0 now d orcs H0) as Hr. destruct (recv c0 now d orcs) as [c'' o''].
    intros E; injection E as <- _. exact Hr. }
  destruct (match r with RxNone => _ | _ => _ end) as [c1 o1] eqn:E1. specialize (H1 _ _ eq_refl).
  destruct (raised o1); [exact H1|]. destruct (_ >? _); [|exact H1].
  pose proof (build_packet_ok e c1 now H1) as H2. destruct (build_packet e c1 now) as [c2 pk]. cbn [fst] in H2.
  pose proof (timeout_loop_ok false now (c_packs c2) c2 H2) as H3. unfold check_timeout.
  destruct (timeout_loop false c2 now (c_packs c2)) as [c3 o3]. exact H3.
Qed.

Lemma server_tick_ok e c now : conn_ok c -> conn_ok (fst (server_tick e c now)).
Proof.
  intros H. unfold server_tick. destruct (_ >? _); [|exact H].
  pose proof (build_packet_ok e c now H) as H2. destruct (build_packet e c now) as [c2 pk]. cbn [fst] in H2.
  pose proof (timeout_loop_ok true now (c_packs c2) c2 H2) as H3. unfold check_timeout.
  destruct (timeout_loop true c2 now (c_packs c2)) as [c3 o3]. exact H3.
Qed.

Theorem step_ok e c x : conn_ok c -> conn_ok (fst (step e c x)).
Proof.
  intros H. destruct x; cbn [step].
  - apply send_ok. exact H.
  - apply client_tick_ok. exact H.
  - apply server_tick_ok. exact H.
  - apply recv_ok. exact H.
  - cbn [fst]. apply disconnect_ok. exact H.
  - cbn [fst]. destruct which as [|p|p]; [same H| |same H].
    destruct p as [p|p|]; [same H| |same H]. destruct p; same H.
  - cbn [fst]. unfold client_hello.
    match goal with |- conn_ok (?X <| c_status := _ |> <| c_hello_sent := _ |>) => assert (HX : conn_ok X); [|same HX] end.
    apply send_type_ok; [exact H|discriminate].
  - cbn [fst]. same H.
  - cbn [fst]. same H.
Qed.

Theorem run_ok e xs : forall c, conn_ok c -> conn_ok (fst (run e c xs)).
Proof.
  induction xs as [|x xs IH]; intros c H; [exact H|]. cbn [run].
  pose proof (step_ok e c x H) as H1. destruct (step e c x) as [c1 o]. cbn [fst] in H1.
  pose proof (IH c1 H1) as H2. destruct (run e c1 xs) as [c2 os]. exact H2.
Qed.

(* ---------- packet construction cannot raise on a reachable state ---------- *)
Lemma sum_len_each ms m : In m ms -> len (m_payload m) <= sum_len ms.
Proof.
  induction ms as [|x ms IH]; intros H; [destruct H|]. cbn [sum_len].
  pose proof (sum_len_nonneg ms). pose proof (len_nonneg (m_payload x)).
  destruct H as [->|H]; [lia|]. specialize (IH H). lia.
Qed.

Theorem pack_never_raises_proof e c now ka delay c' pk cx :
  conn_ok c -> e_max_payload e + 2 < 2 ^ 16 ->
  build_impl e c now ka delay = (c', Some pk) ->
  exists p, emit cx pk = [OEmit (emit_header (fst pk) p) (rx_key (c_key cx) (h_type (fst pk))) p]
            /\ encode_msgs (map wmsg_of (snd pk)) = Ok p /\ len p = payload_size (snd pk) /\ len p < 2 ^ 16
            /\ h_count (fst pk) = len (snd pk) /\ len (snd pk) <= 255.
Proof.
  intros H He E. destruct pk as [h0 ms]. cbn [fst snd].
  pose proof (build_impl_msgs_ok _ _ _ _ _ _ _ _ H E) as Hms.
  destruct (build_impl_size _ _ _ _ _ _ _ _ E) as (Hn & Hc & Hs).
  assert (Hps : payload_size ms < 2 ^ 16).
  { destruct ms as [|m0 ms']; [cbn; lia|]. specialize (Hs ltac:(discriminate)). lia. }
  assert (Hw : Forall wmsg_ok (map wmsg_of ms)).
  { apply Forall_forall. intros w Hw. apply in_map_iff in Hw as (m & <- & Hm).
    rewrite Forall_forall in Hms. destruct (Hms m Hm) as ((Hs1 & Hs2) & _). unfold seq16, RING in *.
    split; cbn [wmsg_of w_seq w_payload]; [lia|].
    pose proof (sum_len_each _ _ Hm). unfold payload_size in Hps.
    pose proof (overhead_nonneg (len ms) (len_nonneg ms)). lia. }
  destruct (encode_msgs_total _ Hw) as (p & Ep & Lp). rewrite wsize_payload_size in Lp.
  exists p. split; [|repeat split; try assumption; lia].
  unfold emit. rewrite Ep. unfold rx_key, emit_header. cbn [h_type].
  destruct (c_key cx) as [k|]; [destruct (negb _)|]; reflexivity.
Qed.

(* the header type of a built packet is the type of its first message (KEEP_ALIVE when empty) *)
Lemma build_impl_type e c now ka delay c' h ms :
  build_impl e c now ka delay = (c', Some (h, ms)) ->
  match ms with m :: _ => h_type h = m_type m | [] => h_type h = KEEP_ALIVE end.
Proof.
  unfold build_impl. intros E.
  destruct (match c_pretry_msg c with [] => _ | _ => _ end) as [[prm msgs0] cur0].
  destruct (out_pass e (c_outgoing c) msgs0 cur0) as [[rem msgs] cu].
  match type of E with (if ?b then _ else _) = _ => destruct b eqn:Hty; [discriminate|] end.
  injection E as _ <- <-. cbn [h_type]. destruct msgs as [|m0 msgs']; cbn [map stamp m_type].
  - cbn [h_type] in Hty. destruct (_ && _); [reflexivity|discriminate].
  - reflexivity.
Qed.

Section EndToEnd.
  Variable crc : list byte -> Z.
  Variable seal : Z -> list byte -> list byte -> list byte -> list byte.
  Variable open : Z -> list byte -> list byte -> list byte -> option (list byte).
  Hypothesis crc_range : forall l, 0 <= crc l < 2 ^ 32.
  Hypothesis open_seal : forall k iv aad p, open k iv aad (seal k iv aad p) = Some p.
  Hypothesis seal_length : forall k iv aad p, length (seal k iv aad p) = (length p + 16)%nat.

  (* end to end: on a reachable state, for every supported MTU, the packet that packet assembly
     builds is encoded without error into at most mtu-28 bytes, and the peer's decoder gets back
     exactly the queued messages that were put into it *)
  Theorem built_packet_bytes mtu e c now ka delay c' h0 ms key extra :
    64 <= mtu <= 65535 -> env_of_mtu mtu = Ok e -> conn_ok c ->
    build_impl e c now ka delay = (c', Some (h0, ms)) ->
    hdr_fields_ok h0 ->
    exists d payload,
      to_bytes crc seal key h0 (map wmsg_of ms) = Ok d
      /\ len d <= max_dgram mtu
      /\ decode_header (h_to_server h0) (d ++ extra) = Ok (built_header h0 (map wmsg_of ms) payload)
      /\ from_bytes crc open (rx_key key (h_type h0)) (built_header h0 (map wmsg_of ms) payload) (d ++ extra)
         = Ok (map wmsg_of ms).
  Proof.
    intros Hm He H E Hf.
    assert (He2 : e_max_payload e + 2 < 2 ^ 16).
    { rewrite env_of_mtu_spec in He. injection He as <-. cbn [env_spec e_max_payload]. lia. }
    destruct (pack_never_raises_proof e c now ka delay c' (h0, ms) c H He2 E) as (p & _ & Ep & Lp & Lp2 & Hc & Hn).
    cbn [fst snd] in *.
    destruct (encode_msgs_inv _ _ Ep) as [Hs Lw].
    assert (Hok : enc_ok h0 (map wmsg_of ms)).
    { split; [exact Hf|]. split; [unfold len; rewrite map_length; exact Hn|]. split; [exact Hs|]. rewrite <- Lw. exact Lp2. }
    assert (Ht : forall m, map wmsg_of ms = [m] -> w_type m = h_type h0).
    { intros m Hm1. pose proof (build_impl_type _ _ _ _ _ _ _ _ E) as Hty.
      destruct ms as [|m0 [|m1 r]]; try discriminate. injection Hm1 as <-. rewrite Hty. reflexivity. }
    destruct (pkt_roundtrip_proof crc seal open crc_range open_seal seal_length key h0 _ extra Hok Ht)
      as (d & payload & Ed & Ep' & _ & Ld & Dh & Fb).
    rewrite Ep in Ep'. injection Ep' as <-.
    exists d, p. split; [exact Ed|]. split; [|split; [exact Dh|exact Fb]].
    destruct (build_impl_size _ _ _ _ _ _ _ _ E) as (_ & _ & Hsz).
    pose proof (budget_spec _ _ He) as Hbud. unfold max_dgram in *.
    change gen_Packet_UDP_HEADER_SIZE with 28 in *. change gen_PacketHeader_SIZE with 20 in *.
    change gen_PacketHeader_TAG_SIZE with 16 in *. change gen_Packet_MESSAGE_OVERHEAD_1 with 2 in *.
    assert (len p <= mtu - 64).
    { destruct ms as [|m0 ms']; [rewrite Lp; cbn; lia|]. specialize (Hsz ltac:(discriminate)). lia. }
    destruct (rx_key key (h_type h0)); lia.
  Qed.
End EndToEnd.
