(* PathJoinP.v — lemmas about Model/PathJoin.v: string primitives, split/join algebra,
   normal form of posixpath.normpath on absolute paths. *)
From Coq Require Import Lia ZifyBool.
From Model Require Import Base PathJoin.
From Proofs Require Import Tac.
Open Scope Z_scope.

(* ---------- string primitives ---------- *)
Lemma str_eqb_eq a b : str_eqb a b = true <-> a = b.
Proof.
  revert b. induction a as [|x a IH]; destruct b as [|y b]; cbn; split; intro H; try congruence; try reflexivity.
  - apply andb_true_iff in H. destruct H as [H1 H2]. apply Z.eqb_eq in H1. apply IH in H2. congruence.
  - inversion H; subst. rewrite Z.eqb_refl. cbn. apply IH. reflexivity.
Qed.

Lemma str_eqb_refl a : str_eqb a a = true.
Proof. apply str_eqb_eq. reflexivity. Qed.

Lemma starts_with_spec p s : starts_with p s = true <-> exists t, s = p ++ t.
Proof.
  revert s. induction p as [|x p IH]; intro s; cbn.
  - split; [intros _; exists s; reflexivity | reflexivity].
  - destruct s as [|y s].
    + split; [discriminate | intros [t H]; discriminate].
    + rewrite andb_true_iff, Z.eqb_eq, IH. split.
      * intros [-> [t ->]]. exists t. reflexivity.
      * intros [t H]. inversion H; subst. split; [reflexivity | exists t; reflexivity].
Qed.

Lemma is_empty_true s : is_empty s = true <-> s = [].
Proof. destruct s; cbn; split; congruence. Qed.

(* ---------- split / join ---------- *)
Lemma split_sl_nonempty s : split_sl s <> [].
Proof.
  destruct s as [|c s]; cbn; [discriminate|].
  destruct (c =? SL); [discriminate|]. destruct (split_sl s); discriminate.
Qed.

Lemma split_sl_cons_sl t : split_sl (SL :: t) = [] :: split_sl t.
Proof. reflexivity. Qed.

Lemma split_sl_app a t : split_sl (a ++ SL :: t) = split_sl a ++ split_sl t.
Proof.
  induction a as [|c a IH]; [reflexivity|].
  cbn [app split_sl]. destruct (c =? SL).
  - rewrite IH. reflexivity.
  - rewrite IH. pose proof (split_sl_nonempty a). destruct (split_sl a); [congruence|reflexivity].
Qed.

Definition slash_free (c : str) : Prop := ~ In SL c.

Lemma split_sl_slash_free s : Forall slash_free (split_sl s).
Proof.
  induction s as [|c s IH]; cbn.
  - constructor; [intros []|constructor].
  - destruct (c =? SL) eqn:E.
    + constructor; [intros []|exact IH].
    + pose proof (split_sl_nonempty s). destruct (split_sl s) as [|h t]; [congruence|].
      inversion IH; subst. constructor; [|assumption].
      intros [Hc|Hc]; [subst; rewrite Z.eqb_refl in E; discriminate | contradiction].
Qed.

Lemma split_sl_of_slash_free c : slash_free c -> split_sl c = [c].
Proof.
  induction c as [|x c IH]; intro H; [reflexivity|].
  cbn. destruct (x =? SL) eqn:E.
  - apply Z.eqb_eq in E. exfalso. apply H. left. congruence.
  - rewrite IH; [reflexivity|]. intro Hc. apply H. right. exact Hc.
Qed.

(* ---------- components ---------- *)
Lemma comps_of_app a t : comps_of (a ++ SL :: t) = comps_of a ++ comps_of t.
Proof. unfold comps_of. rewrite split_sl_app, filter_app. reflexivity. Qed.

Lemma comps_of_cons_sl t : comps_of (SL :: t) = comps_of t.
Proof. reflexivity. Qed.

Lemma comps_of_nil : comps_of [] = [].
Proof. reflexivity. Qed.

Lemma comps_of_repeat_sl n t : comps_of (repeat SL n ++ t) = comps_of t.
Proof. induction n; [reflexivity|]. cbn [repeat app]. rewrite comps_of_cons_sl. exact IHn. Qed.

Lemma comps_of_app_slashes a k : comps_of (a ++ repeat SL k) = comps_of a.
Proof.
  destruct k; [rewrite app_nil_r; reflexivity|].
  cbn [repeat]. rewrite comps_of_app.
  replace (repeat SL k) with (repeat SL k ++ []) by apply app_nil_r.
  rewrite comps_of_repeat_sl, comps_of_nil, app_nil_r. reflexivity.
Qed.

Lemma rstrip_sl_decomp s : exists k, s = rstrip_sl s ++ repeat SL k.
Proof.
  induction s as [|c s [k IH]]; [exists 0%nat; reflexivity|].
  cbn [rstrip_sl]. destruct (rstrip_sl s) as [|x r] eqn:E.
  - destruct (c =? SL) eqn:Ec.
    + apply Z.eqb_eq in Ec. subst c. exists (S k). cbn in *. congruence.
    + exists k. cbn in *. congruence.
  - exists k. cbn [app] in *. congruence.
Qed.

Lemma comps_of_rstrip s : comps_of (rstrip_sl s) = comps_of s.
Proof.
  destruct (rstrip_sl_decomp s) as [k H]. rewrite H at 2. symmetry. apply comps_of_app_slashes.
Qed.

(* a clean component: what normpath leaves in an absolute path *)
Definition clean (c : str) : Prop :=
  c <> [] /\ is_dot c = false /\ is_dotdot c = false /\ slash_free c.

Lemma comps_of_clean c : clean c -> comps_of c = [c].
Proof.
  intros (Hn & _ & _ & Hs). unfold comps_of. rewrite split_sl_of_slash_free by assumption.
  cbn. destruct c; [congruence|reflexivity].
Qed.

Lemma comps_of_join cs : Forall clean cs -> comps_of (join_sl cs) = cs.
Proof.
  induction cs as [|a l IH]; intro H; [reflexivity|].
  inversion H as [|? ? Ha Hl]; subst.
  cbn [join_sl]. destruct l as [|b l'].
  - apply comps_of_clean. assumption.
  - rewrite comps_of_app, comps_of_clean by assumption. rewrite IH by assumption. reflexivity.
Qed.

Lemma clean_no_dots cs : Forall clean cs -> no_dots cs.
Proof.
  unfold no_dots. intro H. eapply Forall_impl; [|exact H].
  intros c (_ & H1 & H2 & _). split; assumption.
Qed.

(* ---------- normpath on an absolute path ---------- *)
Lemma norm_loop_abs_clean comps acc :
  Forall slash_free comps -> Forall clean acc -> Forall clean (norm_loop true comps acc).
Proof.
  revert acc. induction comps as [|c cs IH]; intros acc Hc Ha; cbn [norm_loop].
  - apply Forall_rev. exact Ha.
  - inversion Hc as [|? ? Hc1 Hc2]; subst.
    destruct (is_empty c) eqn:E1; cbn [orb]; [apply IH; assumption|].
    destruct (is_dot c) eqn:E2; [apply IH; assumption|].
    destruct (is_dotdot c) eqn:E3; cbn [negb orb andb].
    + destruct acc as [|h acc'].
      * apply IH; assumption.
      * inversion Ha as [|? ? Hh Ha']; subst.
        destruct Hh as (_ & _ & Hdd & _). rewrite Hdd. apply IH; assumption.
    + apply IH; [assumption|]. constructor; [|assumption].
      repeat split; try assumption. intro; subst; discriminate.
Qed.

Lemma initial_slashes_abs p : starts_sl p = true ->
  initial_slashes p = 1%nat \/ initial_slashes p = 2%nat.
Proof.
  destruct p as [|a [|b [|c p]]]; cbn; try discriminate; intro H; rewrite H;
    repeat match goal with |- context [if ?x then _ else _] => destruct x end; auto.
Qed.

(* the shape of normpath's result for an absolute input *)
Lemma normpath_abs p : starts_sl p = true ->
  exists n cs, (n = 1%nat \/ n = 2%nat) /\ Forall clean cs /\ normpath p = repeat SL n ++ join_sl cs.
Proof.
  intro H. destruct p as [|a p]; [discriminate|].
  destruct (initial_slashes_abs (a :: p) H) as [Hn|Hn];
    unfold normpath; rewrite Hn; cbn [Nat.eqb negb];
    eexists _, _; (split; [|split; [|reflexivity]]); auto;
    apply norm_loop_abs_clean; [apply split_sl_slash_free|constructor | apply split_sl_slash_free|constructor].
Qed.

Lemma normpath_abs_props p : starts_sl p = true ->
  starts_sl (normpath p) = true /\ Forall clean (comps_of (normpath p)).
Proof.
  intro H. destruct (normpath_abs p H) as (n & cs & Hn & Hcs & ->).
  rewrite comps_of_repeat_sl, comps_of_join by assumption.
  split; [|assumption]. destruct Hn; subst; reflexivity.
Qed.

Lemma pjoin_abs a b : starts_sl a = true -> starts_sl (pjoin a b) = true.
Proof.
  intro H. unfold pjoin. destruct (starts_sl b) eqn:E; [assumption|].
  destruct a as [|x a]; [discriminate|]. cbn in H.
  destruct (is_empty (x :: a) || ends_sl (x :: a)); cbn; assumption.
Qed.

Lemma abspath_props cwd p : starts_sl cwd = true ->
  starts_sl (abspath cwd p) = true /\ Forall clean (comps_of (abspath cwd p)).
Proof.
  intro H. unfold abspath. apply normpath_abs_props.
  destruct (starts_sl p) eqn:E; [assumption|]. apply pjoin_abs. assumption.
Qed.
