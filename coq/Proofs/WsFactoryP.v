(* WsFactoryP.v — the public constructors of WebSocketFrame build well-formed frames, so the theorems
   about encode_frame / parse_frame (C18P) apply to everything the public API can build. *)
From Coq Require Import Lia ZifyBool.
From Model Require Import Base Utf8 WsFrame WsFactory.
From Proofs Require Import Utf8P WsFrameP WsStreamP C18P.
Import ListNotations.
Open Scope Z_scope.

Lemma factory_wf : forall op payload, op <> OpOpen -> len payload < 2 ^ 63 ->
  wf_frame (factory_frame op payload).
Proof.
  intros op p Hop Hl. unfold wf_frame, factory_frame, bit, wire_opcode; cbn.
  repeat split; auto.
Qed.

Lemma wf_anykey : forall f, wf_frame f -> wf_frame_anykey f.
Proof. unfold wf_frame, wf_frame_anykey. intros f H. intuition. Qed.

Lemma ws_text_inv : forall s f, ws_text s = Ok f ->
  exists b, utf8_encode s = Some b /\ f = factory_frame OpText b.
Proof.
  unfold ws_text. intros s f H. destruct (utf8_encode s) as [b|] eqn:E; [|discriminate].
  exists b. split; auto. now inversion H.
Qed.

Lemma ws_close_inv : forall st m f, ws_close st m = Ok f ->
  exists h, pack_H st = Ok h /\ f = factory_frame OpClose (h ++ m).
Proof.
  unfold ws_close, bind. intros st m f H. destruct (pack_H st) as [h|] eqn:E; [|discriminate].
  exists h. split; auto. now inversion H.
Qed.

Lemma built_is_factory_frame : forall f, built_by_factory f ->
  exists op p, op <> OpOpen /\ f = factory_frame op p.
Proof.
  intros f [[m ->]|[[m ->]|[[m ->]|[[st [m H]]|[s H]]]]].
  - exists OpPing, m. split; [discriminate|reflexivity].
  - exists OpPong, m. split; [discriminate|reflexivity].
  - exists OpBinary, m. split; [discriminate|reflexivity].
  - apply ws_close_inv in H. destruct H as [h [_ ->]]. exists OpClose, (h ++ m). split; [discriminate|reflexivity].
  - apply ws_text_inv in H. destruct H as [b [_ ->]]. exists OpText, b. split; [discriminate|reflexivity].
Qed.

Theorem C18_factories_wellformed_proof : forall f,
  built_by_factory f -> len (f_payload f) < 2 ^ 63 ->
  wf_frame f /\ f_fin f = 1 /\ f_mask f = 0 /\ f_plen f = len (f_payload f).
Proof.
  intros f Hb Hl. destruct (built_is_factory_frame f Hb) as [op [p [Hop ->]]].
  cbn in *. split; [apply factory_wf; auto|]. auto.
Qed.

Theorem C18_factories_roundtrip_proof : forall f rest,
  built_by_factory f -> len (f_payload f) < 2 ^ 63 ->
  encode_frame f = Ok (rfc_encode f) /\ parse_frame (rfc_encode f ++ rest) = (Ok f, rest).
Proof.
  intros f rest Hb Hl. destruct (C18_factories_wellformed_proof f Hb Hl) as [Hwf _].
  pose proof (C18_encode_rfc_proof f (wf_anykey f Hwf)) as He.
  split; [exact He|].
  pose proof (C18_frame_roundtrip_exact_proof f rest Hwf) as Hr. rewrite He in Hr. exact Hr.
Qed.

(* Text(s): the payload is the UTF-8 encoding of s — it decodes back to s — and the length field counts its BYTES *)
Theorem C18_text_factory_proof : forall s f, ws_text s = Ok f ->
  f_opcode f = OpText /\ utf8_decode (f_payload f) = Some s /\ f_plen f = len (f_payload f).
Proof.
  intros s f H. apply ws_text_inv in H. destruct H as [b [E ->]]. cbn.
  repeat split. now apply utf8_roundtrip.
Qed.

(* Text(s) exists for every str without lone surrogates *)
Theorem C18_text_factory_total_proof : forall s,
  Forall (fun c => cp_ok c = true /\ is_surrogate c = false) s -> exists f, ws_text s = Ok f.
Proof.
  intros s H. unfold ws_text. destruct (utf8_encode_total s H) as [b ->]. eexists; reflexivity.
Qed.

Theorem C18_text_factory_full_proof : forall s,
  Forall (fun c => cp_ok c = true /\ is_surrogate c = false) s ->
  exists f, ws_text s = Ok f /\ f_opcode f = OpText /\ utf8_decode (f_payload f) = Some s /\
            f_plen f = len (f_payload f).
Proof.
  intros s H. destruct (C18_text_factory_total_proof s H) as [f E]. exists f. split; [exact E|].
  exact (C18_text_factory_proof s f E).
Qed.

(* handler.send(s): what goes on the wire is the RFC encoding of the Text frame *)
Theorem C18_send_is_rfc_proof : forall s b, ws_send s = Ok b ->
  exists f, ws_text s = Ok f /\ (len (f_payload f) < 2 ^ 63 -> b = rfc_encode f).
Proof.
  unfold ws_send, bind. intros s b H. destruct (ws_text s) as [f|] eqn:E; [|discriminate].
  exists f. split; auto. intros Hl.
  assert (Hb : built_by_factory f) by (right; right; right; right; eauto).
  destruct (C18_factories_roundtrip_proof f [] Hb Hl) as [He _]. rewrite He in H. now inversion H.
Qed.
