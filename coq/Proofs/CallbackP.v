(* CallbackP.v — C07: when the connection reports success / failure of a send. *)
From Coq Require Import Lia ZifyBool.
From RecordUpdate Require Import RecordUpdate.
From Model Require Import Base SeqNum Wire Conn.
From Proofs Require Import Tac SeqNumP ConnFrameP NonceP PackP ClearP AckP.
Import RecordSetNotations.
Open Scope Z_scope.

Definition cb_true (o : list out) : Prop := exists id, In (OCallback id true) o.

(* ---------- fragment sender contexts in pending_fragments are never complete ---------- *)
Definition incomplete (fs : fsender) : Prop := forallb is_some (fs_acks fs) = false.
Definition Inc (c : conn) : Prop := Forall (fun p => incomplete (snd p)) (c_pfrags c).

Lemma fire_icb_Inc c k ok c' o : Inc c -> fire_icb c k ok = (c', o) -> Inc c'.
Proof.
  unfold fire_icb, Inc. intros I E. destruct k; try (injection E as <- <-; exact I).
  destruct (dget fid (c_pfrags c)) as [fs|]; [|injection E as <- <-; exact I].
  destruct (forallb is_some _) eqn:Ea; injection E as <- <-; cbn.
  - apply Forall_ddel. exact I.
  - apply Forall_dset; [exact I|]. exact Ea.
Qed.

Lemma fire_cb_Inc c k ok c' o : Inc c -> fire_cb c k ok = (c', o) -> Inc c'.
Proof.
  unfold fire_cb. intros I. destruct k as [i|rid mseq ty p i]; [apply fire_icb_Inc; exact I|].
  destruct (zmem rid (c_done c)); [intros E; injection E as <- <-; exact I|].
  destruct (negb ok); [intros E; injection E as <- <-; exact I|]. apply fire_icb_Inc. exact I.
Qed.

Lemma fire_all_Inc ks : forall c ok c' o, Inc c -> fire_all c ks ok = (c', o) -> Inc c'.
Proof.
  induction ks as [|k ks IH]; intros c ok c' o I E; cbn [fire_all] in E.
  - injection E as <- <-. exact I.
  - destruct (fire_cb c k ok) as [c1 o1] eqn:E1. destruct (fire_all c1 ks ok) as [c2 o2] eqn:E2.
    injection E as <- <-. eapply IH; [|exact E2]. eapply fire_cb_Inc; eassumption.
Qed.

Lemma resolve_Inc ok c s c' o : Inc c -> resolve ok c s = (c', o) -> Inc c'.
Proof.
  unfold resolve. intros I E.
  set (c0 := if ok then _ else _) in E. assert (I0 : Inc c0) by (subst c0; destruct ok; exact I).
  destruct (dget s (c_pcbs c0)) as [ks|].
  - destruct (fire_all c0 ks ok) as [c1 o1] eqn:E1. pose proof (fire_all_Inc _ _ _ _ _ I0 E1) as I1.
    injection E as <- <-. cbn. destruct (dget s (c_pretry c1)); exact I1.
  - injection E as <- <-. cbn. destruct (dget s (c_pretry c0)); exact I0.
Qed.

Lemma ack_loop_Inc h snap : forall c c' o, Inc c -> ack_loop c h snap = (c', o) -> Inc c'.
Proof.
  induction snap as [|[s t] r IH]; intros c c' o I E; cbn [ack_loop] in E.
  - injection E as <- <-. exact I.
  - dpair E c1 o1 E1. destruct (ack_loop c1 h r) as [c2 o2] eqn:E2. injection E as <- <-.
    eapply IH; [|exact E2]. destruct (hdr_acks _ _ s); [eapply resolve_Inc; eassumption|].
    destruct (_ >? _); [eapply resolve_Inc; eassumption|]. injection E1 as <- <-. exact I.
Qed.

Lemma timeout_loop_Inc strict now snap : forall c c' o, Inc c -> timeout_loop strict c now snap = (c', o) -> Inc c'.
Proof.
  induction snap as [|[s t] r IH]; intros c c' o I E; cbn [timeout_loop] in E.
  - injection E as <- <-. exact I.
  - dpair E c1 o1 E1. destruct (timeout_loop strict c1 now r) as [c2 o2] eqn:E2. injection E as <- <-.
    eapply IH; [|exact E2]. match type of E1 with (if ?b then _ else _) = _ => destruct b end;
      [eapply resolve_Inc; eassumption|injection E1 as <- <-; exact I].
Qed.

(* ---------- success is only ever reported while processing an acknowledgement ---------- *)
Lemma set_false_not_all_true l : forall n, forallb is_some l = false ->
  forallb is_some (set_nth n (Some false) l) = true -> forallb is_true (set_nth n (Some false) l) = false.
Proof.
  induction l as [|a l IH]; intros n H0 H1; [discriminate|].
  destruct n as [|n]; cbn [set_nth forallb is_true] in *; [reflexivity|].
  apply andb_prop in H1 as [Ha Hl]. rewrite Ha in H0. cbn [andb] in H0. rewrite (IH _ H0 Hl). apply andb_false_r.
Qed.

Lemma fire_icb_true c k c' o : Inc c -> fire_icb c k false = (c', o) -> ~ cb_true o.
Proof.
  unfold fire_icb. intros I E [id Hin]. destruct k.
  - injection E as <- <-. destruct Hin.
  - injection E as <- <-. destruct Hin as [H|[]]. discriminate.
  - destruct (dget fid (c_pfrags c)) as [fs|] eqn:Eg; [|injection E as <- <-; destruct Hin].
    destruct (forallb is_some _) eqn:Ea; injection E as <- <-; [|destruct Hin].
    destruct (fs_ucb fs); try solve [destruct Hin]. destruct Hin as [H|[]]. injection H as _ H.
    unfold Inc in I. rewrite Forall_forall in I. pose proof (I _ (dget_In _ _ _ Eg)) as Hinc. cbn in Hinc.
    rewrite (set_false_not_all_true _ _ Hinc Ea) in H. discriminate.
  - injection E as <- <-. destruct Hin as [H|[]]. discriminate.
  - injection E as <- <-. destruct Hin as [H|[]]. discriminate.
  - injection E as <- <-. destruct Hin as [H|[]]. discriminate.
Qed.

Lemma fire_all_false_true ks : forall c c' o, Inc c -> fire_all c ks false = (c', o) -> ~ cb_true o.
Proof.
  induction ks as [|k ks IH]; intros c c' o I E; cbn [fire_all] in E.
  - injection E as <- <-. intros [id []].
  - destruct (fire_cb c k false) as [c1 o1] eqn:E1. destruct (fire_all c1 ks false) as [c2 o2] eqn:E2.
    injection E as <- <-. pose proof (fire_cb_Inc _ _ _ _ _ I E1) as I1.
    intros [id Hin]. apply in_app_or in Hin as [Hin|Hin].
    + unfold fire_cb in E1. destruct k as [i|rid mseq ty p i].
      * apply (fire_icb_true _ _ _ _ I E1). exists id. exact Hin.
      * destruct (zmem rid (c_done c)); [injection E1 as <- <-; destruct Hin|].
        cbn [negb] in E1. injection E1 as <- <-. destruct Hin.
    + apply (IH _ _ _ I1 E2). exists id. exact Hin.
Qed.

Lemma resolve_false_true c s c' o : Inc c -> resolve false c s = (c', o) -> ~ cb_true o.
Proof.
  unfold resolve. intros I E.
  match type of E with context [dget s (c_pcbs ?c0)] => destruct (dget s (c_pcbs c0)) as [ks|] end.
  - match type of E with context [fire_all ?c0 ks false] => destruct (fire_all c0 ks false) as [c1 o1] eqn:E1 end.
    injection E as <- <-. eapply fire_all_false_true; [|exact E1]. exact I.
  - injection E as <- <-. intros [id []].
Qed.

Lemma timeout_loop_true strict now snap : forall c c' o, Inc c -> timeout_loop strict c now snap = (c', o) -> ~ cb_true o.
Proof.
  induction snap as [|[s t] r IH]; intros c c' o I E; cbn [timeout_loop] in E.
  - injection E as <- <-. intros [id []].
  - dpair E c1 o1 E1. destruct (timeout_loop strict c1 now r) as [c2 o2] eqn:E2. injection E as <- <-.
    assert (I1 : Inc c1).
    { match type of E1 with (if ?b then _ else _) = _ => destruct b end;
        [eapply resolve_Inc; eassumption|injection E1 as <- <-; exact I]. }
    intros [id Hin]. apply in_app_or in Hin as [Hin|Hin]; [|apply (IH _ _ _ I1 E2); exists id; exact Hin].
    match type of E1 with (if ?b then _ else _) = _ => destruct b end.
    + apply (resolve_false_true _ _ _ _ I E1). exists id. exact Hin.
    + injection E1 as <- <-. destruct Hin.
Qed.

(* the acknowledgement loop: success is reported only if some pending datagram is named by
   the (ack, ack_bits) fields of the header being processed *)
Lemma ack_loop_true h snap : forall c c' o, Inc c -> ack_loop c h snap = (c', o) -> cb_true o ->
  exists s t, In (s, t) snap /\ hdr_acks (h_ack h) (h_ackbits h) s = true.
Proof.
  induction snap as [|[s t] r IH]; intros c c' o I E Ht; cbn [ack_loop] in E.
  - injection E as <- <-. destruct Ht as [id []].
  - dpair E c1 o1 E1. destruct (ack_loop c1 h r) as [c2 o2] eqn:E2. injection E as <- <-.
    assert (I1 : Inc c1).
    { destruct (hdr_acks _ _ s); [eapply resolve_Inc; eassumption|].
      destruct (_ >? _); [eapply resolve_Inc; eassumption|]. injection E1 as <- <-. exact I. }
    destruct Ht as [id Hin]. apply in_app_or in Hin as [Hin|Hin].
    + destruct (hdr_acks (h_ack h) (h_ackbits h) s) eqn:Ea; [exists s, t; split; [left; reflexivity|exact Ea]|].
      exfalso. destruct (_ >? _).
      * apply (resolve_false_true _ _ _ _ I E1). exists id. exact Hin.
      * injection E1 as <- <-. destruct Hin.
    + destruct (IH _ _ _ I1 E2 (ex_intro _ id Hin)) as (s' & t' & Hi & Ha). exists s', t'. split; [right; exact Hi|exact Ha].
Qed.

Lemma no_cb_true_of_cb_free o : (forall id b, ~ In (OCallback id b) o) -> ~ cb_true o.
Proof. intros H [id Hin]. exact (H _ _ Hin). Qed.

Lemma recv_msgs_no_cb ms : forall c now orcs c' o id b, recv_msgs c now ms orcs = (c', o) -> ~ In (OCallback id b) o.
Proof.
  induction ms as [|m r IH]; intros c now orcs c' o id b E; cbn [recv_msgs] in E.
  - injection E as <- <-. intros [].
  - destruct (bf_insert (c_bf_msg c) (w_seq m)) as [bf|]; [|eapply IH; eassumption].
    match type of E with context [match ?x with (_, _) => _ end] => destruct x as [[c1 o1] orcs'] eqn:E1 end.
    assert (H1 : ~ In (OCallback id b) o1).
    { assert (Hh : forall ty c'' o'', recv_handshake (c <| c_bf_msg := bf |>) ty (hd no_oracle orcs) = (c'', o'') -> ~ In (OCallback id b) o'').
      { intros ty c'' o'' Eh. unfold recv_handshake in Eh.
        destruct ty, (c_server (c <| c_bf_msg := bf |>)); try (injection Eh as <- <-; intros []).
        - destruct (negb _); [injection Eh as <- <-; intros [H|[]]; discriminate|].
          destruct (negb _); injection Eh as <- <-; intros [].
        - destruct (o_parse _ =? 6); [injection Eh as <- <-; intros [H|[]]; discriminate|].
          destruct (negb _); [injection Eh as <- <-; intros [H|[]]; discriminate|].
          injection Eh as <- <-. destruct (c_conn_cb _); [intros [H|[]]; discriminate|intros []].
        - destruct (negb _); [injection Eh as <- <-; intros [H|[]]; discriminate|].
          destruct (o_temp_token _) as [t|]; [|injection Eh as <- <-; intros [H|[]]; discriminate].
          destruct (t =? _); injection Eh as <- <-; intros [H|[]]; discriminate. }
      destruct (w_type m).
      - injection E1 as <- <- <-. intros [].
      - destruct (recv_handshake _ CLIENT_HELLO _) as [c'' o''] eqn:Eh. injection E1 as <- <- <-. eapply Hh; eassumption.
      - destruct (recv_handshake _ SERVER_HELLO _) as [c'' o''] eqn:Eh. injection E1 as <- <- <-. eapply Hh; eassumption.
      - destruct (recv_handshake _ CHALLENGE_RESP _) as [c'' o''] eqn:Eh. injection E1 as <- <- <-. eapply Hh; eassumption.
      - injection E1 as <- <- <-. intros [].
      - injection E1 as <- <- <-. intros [].
      - injection E1 as <- <- <-. intros [].
      - destruct (recv_fragment _ now (w_seq m) (w_payload m)) as [c'' o''] eqn:Ef. injection E1 as <- <- <-.
        unfold recv_fragment in Ef. destruct (_ <? _)%nat; injection Ef as <- <-; [intros [H|[]]; discriminate|intros []]. }
    destruct (raised o1); [injection E as <- <-; exact H1|].
    destruct (recv_msgs c1 now r orcs') as [c2 o2] eqn:E2. injection E as <- <-.
    intros Hin. apply in_app_or in Hin as [Hin|Hin]; [exact (H1 Hin)|]. eapply IH; eassumption.
Qed.

(* receiving: success is reported only for a datagram that passes the authenticity gate (opens
   under the key the connection holds), is new, and whose header acknowledges a pending datagram *)
Definition passes_gate (c : conn) (d : dgram) : Prop :=
  keyless_refuses c (d_hdr d) = false /\ (exists ms, open_dgram (c_key c) d = Ok ms) /\ exists bf, bf_insert (c_bf_pkt c) (h_seq (d_hdr d)) = Ok bf.

Theorem recv_true c now d orcs c' o : Inc c -> recv c now d orcs = (c', o) -> cb_true o ->
  passes_gate c d /\
  exists s t, In (s, t) (c_packs c) /\ hdr_acks (h_ack (d_hdr d)) (h_ackbits (d_hdr d)) s = true.
Proof.
  unfold recv, passes_gate. intros I E Ht.
  assert (Hr : ~ cb_true [ORet false]) by (intros [id [H|[]]]; discriminate).
  destruct (keyless_refuses c (d_hdr d)); [injection E as <- <-; contradiction|].
  destruct (open_dgram (c_key c) d) as [ms|]; [|injection E as <- <-; contradiction].
  destruct (bf_insert (c_bf_pkt c) _) as [bf|]; [|injection E as <- <-; contradiction].
  match type of E with context [handle_ack_bits ?c0 _] => set (cc := c0) in E end.
  destruct (handle_ack_bits cc (d_hdr d)) as [c1 o1] eqn:E1.
  destruct (recv_msgs c1 now ms orcs) as [c2 o2] eqn:E2. injection E as <- <-.
  split; [split; [reflexivity|split; eauto]|].
  destruct Ht as [id Hin]. apply in_app_or in Hin as [Hin|Hin].
  - unfold handle_ack_bits in E1. assert (Icc : Inc cc) by exact I.
    apply (ack_loop_true _ _ _ _ _ Icc E1). exists id. exact Hin.
  - exfalso. apply in_app_or in Hin as [Hin|Hin].
    + exact (recv_msgs_no_cb _ _ _ _ _ _ _ _ E2 Hin).
    + destruct (raised o2); [destruct Hin|destruct Hin as [H|[]]; discriminate].
Qed.

Lemma recv_msgs_pfrags ms c now orcs c' o : recv_msgs c now ms orcs = (c', o) -> c_pfrags c' = c_pfrags c.
Proof.
  apply (recv_msgs_rel (keeps c_pfrags)); try (intros; reflexivity).
  - apply keeps_trans.
  - intros c0 n s p c1 o1 Ef. unfold recv_fragment in Ef. destruct (_ <? _)%nat; [injection Ef as <- <-; reflexivity|].
    injection Ef as <- <-. unfold keeps. destruct (fr_complete _); reflexivity.
  - apply recv_handshake_keeps; intros; reflexivity.
Qed.

Lemma recv_Inc c now d orcs c' o : Inc c -> recv c now d orcs = (c', o) -> Inc c'.
Proof.
  unfold recv. intros I E.
  destruct (keyless_refuses c (d_hdr d)); [injection E as <- <-; exact I|].
  destruct (open_dgram (c_key c) d) as [ms|]; [|injection E as <- <-; exact I].
  destruct (bf_insert (c_bf_pkt c) _) as [bf|]; [|injection E as <- <-; exact I].
  match type of E with context [handle_ack_bits ?c0 _] => set (cc := c0) in E end.
  assert (Icc : Inc cc) by exact I.
  destruct (handle_ack_bits cc (d_hdr d)) as [c1 o1] eqn:E1.
  destruct (recv_msgs c1 now ms orcs) as [c2 o2] eqn:E2. injection E as <- <-.
  unfold Inc. rewrite (recv_msgs_pfrags _ _ _ _ _ _ E2). eapply ack_loop_Inc; eassumption.
Qed.

Lemma build_packet_pfrags e c now c' r : build_packet e c now = (c', r) -> c_pfrags c' = c_pfrags c.
Proof.
  unfold build_packet. intros E. destruct (_ <? _); [injection E as <- <-; reflexivity|].
  destruct (build_impl e c now _ _) as [c1 r1] eqn:E1.
  assert (H1 : c_pfrags c1 = c_pfrags c).
  { unfold build_impl in E1.
    destruct (match c_pretry_msg c with [] => _ | _ => _ end) as [[prm msgs0] cur0].
    destruct (out_pass e (c_outgoing c) msgs0 cur0) as [[rem msgs] cu].
    match type of E1 with (if ?b then _ else _) = _ => destruct b end; injection E1 as <- _;
      repeat match goal with |- context [match ?x with [] => _ | _ :: _ => _ end] => destruct x end; reflexivity. }
  destruct r1; injection E as <- <-; exact H1.
Qed.

Lemma emit_no_cb c pk id b : ~ In (OCallback id b) (emit c pk).
Proof.
  destruct pk as [h ms]. unfold emit. destruct (encode_msgs _); [destruct (c_key c); [destruct (negb _)|]|];
    intros [H|[]]; discriminate.
Qed.

(* every event: success is reported only by the two receive paths *)
Theorem step_true e c x c' o : Inc c -> step e c x = (c', o) -> cb_true o ->
  exists now d orcs c0, (x = ERecv now d orcs /\ c0 = c \/
                         x = EClientTick now (RxDgram d orcs) /\ c0 = fst (client_update c now)) /\
    passes_gate c0 d /\
    exists s t, In (s, t) (c_packs c0) /\ hdr_acks (h_ack (d_hdr d)) (h_ackbits (d_hdr d)) s = true.
Proof.
  intros I E Ht. destruct x; cbn [step] in E.
  - exfalso. destruct Ht as [id Hin]. unfold send in E. destruct (negb _); [injection E as <- <-; destruct Hin|].
    destruct (_ >? _); [destruct (_ >? _)|]; injection E as <- <-; try solve [destruct Hin]. destruct Hin as [H|[]]; discriminate.
  - unfold client_tick in E.
    destruct (client_update c now) as [c0 o0] eqn:E0.
    assert (I0 : Inc c0).
    { unfold client_update in E0.
      destruct (_ && (now >? _)); destruct (_ && (_ >? c_temp_timeout _)); injection E0 as <- <-; exact I. }
    assert (N0 : forall id b, ~ In (OCallback id b) o0).
    { intros id b Hin. unfold client_update in E0.
      destruct (_ && (now >? _)); destruct (_ && (_ >? c_temp_timeout _)); injection E0 as <- <-;
        try solve [destruct Hin]; destruct (c_conn_cb _); try solve [destruct Hin]; destruct Hin as [H|[]]; discriminate. }
    destruct (status_eqb (c_status c0) DROPPED); [injection E as <- <-; exfalso; destruct Ht as [id Hin]; exact (N0 _ _ Hin)|].
    match type of E with context [match ?y with (_, _) => _ end] => destruct y as [c1 o1] eqn:E1 end.
    assert (Htail : forall ot, o = o0 ++ o1 ++ ot -> ~ cb_true ot -> cb_true o1).
    { intros ot -> Hn. destruct Ht as [id Hin]. apply in_app_or in Hin as [Hin|Hin]; [exfalso; exact (N0 _ _ Hin)|].
      apply in_app_or in Hin as [Hin|Hin]; [exists id; exact Hin|exfalso; apply Hn; exists id; exact Hin]. }
    assert (I1 : Inc c1).
    { destruct r as [|er|d orcs]; try (injection E1 as <- <-; exact I0).
      destruct (recv c0 now d orcs) as [c'' o''] eqn:Er. injection E1 as <- <-. eapply recv_Inc; eassumption. }
    assert (Ho1 : cb_true o1).
    { destruct (raised o1); [injection E as <- <-; apply (Htail []); [rewrite app_nil_r; reflexivity|intros [id []]]|].
      destruct (_ >? _); [|injection E as <- <-; apply (Htail []); [rewrite app_nil_r; reflexivity|intros [id []]]].
      destruct (build_packet e c1 now) as [c2 pk] eqn:E2.
      destruct (check_timeout false c2 now) as [c3 o3] eqn:E3. injection E as <- <-.
      apply (Htail (match pk with Some p => emit c2 p | None => [] end ++ o3)); [reflexivity|].
      intros [id Hin]. apply in_app_or in Hin as [Hin|Hin].
      - destruct pk; [exact (emit_no_cb _ _ _ _ Hin)|destruct Hin].
      - assert (I2 : Inc c2) by (unfold Inc; rewrite (build_packet_pfrags _ _ _ _ _ E2); exact I1).
        apply (timeout_loop_true _ _ _ _ _ _ I2 E3). exists id. exact Hin. }
    destruct r as [|er|d orcs].
    + injection E1 as <- <-. destruct Ho1 as [id []].
    + injection E1 as <- <-. destruct Ho1 as [id [H|[]]]. discriminate.
    + destruct (recv c0 now d orcs) as [c'' o''] eqn:Er. injection E1 as <- <-.
      assert (Ht'' : cb_true o'') by (destruct Ho1 as [id Hin]; exists id; apply filter_In in Hin as [Hin _]; exact Hin).
      destruct (recv_true _ _ _ _ _ _ I0 Er Ht'') as (G & Hs).
      exists now, d, orcs, c0. split; [right; split; [reflexivity|rewrite E0; reflexivity]|]. split; assumption.
  - exfalso. unfold server_tick in E. destruct (_ >? _); [|injection E as <- <-; destruct Ht as [id []]].
    destruct (build_packet e c now) as [c1 pk] eqn:E1.
    destruct (check_timeout true c1 now) as [c2 o2] eqn:E2. injection E as <- <-.
    destruct Ht as [id Hin]. apply in_app_or in Hin as [Hin|Hin].
    + assert (I1 : Inc c1) by (unfold Inc; rewrite (build_packet_pfrags _ _ _ _ _ E1); exact I).
      apply (timeout_loop_true _ _ _ _ _ _ I1 E2). exists id. exact Hin.
    + destruct pk; [exact (emit_no_cb _ _ _ _ Hin)|destruct Hin].
  - destruct (recv_true _ _ _ _ _ _ I E Ht) as (G & Hs). exists now, d, orcs, c. split; [left; split; reflexivity|]. split; assumption.
  - injection E as <- <-. destruct Ht as [id []].
  - injection E as <- <-. destruct Ht as [id []].
  - injection E as <- <-. destruct Ht as [id []].
  - injection E as <- <-. destruct Ht as [id []].
  - injection E as <- <-. destruct Ht as [id []].
Qed.

(* ---------- failure is only reported for a datagram that has timed out ---------- *)
Lemma dget_dset {A} k k' (v : A) d : dget k' (dset k v d) = if k' =? k then Some v else dget k' d.
Proof.
  induction d as [|[k0 v0] r IH]; cbn [dset dget].
  - destruct (k' =? k); reflexivity.
  - destruct (k =? k0) eqn:E0; cbn [dget].
    + apply Z.eqb_eq in E0. subst k0. destruct (k' =? k); reflexivity.
    + destruct (k' =? k0) eqn:E1; [|exact IH].
      apply Z.eqb_eq in E1. subst k0. assert (k' =? k = false) as -> by lia. reflexivity.
Qed.

Lemma dget_ddel {A} k k' (d : list (Z * A)) : dget k' (ddel k d) = if k' =? k then None else dget k' d.
Proof.
  unfold ddel. induction d as [|[k0 v0] r IH]; cbn [filter dget fst].
  - destruct (k' =? k); reflexivity.
  - destruct (k0 =? k) eqn:E0; cbn [negb dget].
    + rewrite IH. apply Z.eqb_eq in E0. subst k0. destruct (k' =? k) eqn:E1; [reflexivity|]. reflexivity.
    + destruct (k' =? k0) eqn:E1; [|exact IH].
      apply Z.eqb_eq in E1. subst k0. assert (k' =? k = false) as -> by lia. reflexivity.
Qed.

(* every failed fragment ack in cur was already a failed ack of the same context in c0 *)
Definition old_false (c0 cur : conn) : Prop :=
  forall fid fs, dget fid (c_pfrags cur) = Some fs -> In (Some false) (fs_acks fs) ->
    exists fs0, dget fid (c_pfrags c0) = Some fs0 /\ fs_ucb fs0 = fs_ucb fs /\ In (Some false) (fs_acks fs0).

(* since c0: either a datagram has been declared timed out, or no new failed ack exists *)
Definition Q (c0 cur : conn) : Prop :=
  c_timeouts c0 <= c_timeouts cur /\ (c_timeouts c0 < c_timeouts cur \/ old_false c0 cur).

Definition false_ok (c0 : conn) (c' : conn) (o : list out) : Prop :=
  forall id, In (OCallback id false) o ->
    c_timeouts c0 < c_timeouts c' \/
    exists fid fs0, dget fid (c_pfrags c0) = Some fs0 /\ fs_ucb fs0 = IUser id /\ In (Some false) (fs_acks fs0).

Lemma set_nth_true_false l : forall n, In (Some false) (set_nth n (Some true) l) -> In (Some false) l.
Proof.
  induction l as [|a l IH]; intros [|n] H; cbn [set_nth] in *; try exact H.
  - destruct H as [H|H]; [discriminate|right; exact H].
  - destruct H as [H|H]; [left; exact H|right; eapply IH; exact H].
Qed.

Lemma all_some_not_all_true l : forallb is_some l = true -> forallb is_true l = false -> In (Some false) l.
Proof.
  induction l as [|a l IH]; cbn; intros H1 H2; [discriminate|].
  apply andb_prop in H1 as [Ha Hl]. destruct a as [[|]|]; cbn in *; try discriminate.
  - right. apply IH; assumption.
  - left. reflexivity.
Qed.

Lemma Q_refl c : Q c c. Proof. split; [lia|right]. intros fid fs H1 H2. exists fs. auto. Qed.

Lemma old_false_same c0 a b : c_pfrags b = c_pfrags a -> old_false c0 a -> old_false c0 b.
Proof. unfold old_false. intros -> H. exact H. Qed.

(* one inner callback, fired with flag ok from a state cur that satisfies Q c0 cur;
   tmo = true records that the current datagram is being declared timed out *)
Lemma fire_icb_false c0 cur k ok c' o :
  Q c0 cur -> (ok = false -> c_timeouts c0 < c_timeouts cur) ->
  fire_icb cur k ok = (c', o) -> Q c0 c' /\ false_ok c0 c' o.
Proof.
  intros [Hle Hq] Hok E. unfold fire_icb in E. destruct k.
  - injection E as <- <-. split; [split; assumption|intros id []].
  - injection E as <- <-. split; [split; assumption|]. intros id0 [H|[]]. injection H as -> ->. left. apply Hok. reflexivity.
  - destruct (dget fid (c_pfrags cur)) as [fs|] eqn:Eg; [|injection E as <- <-; split; [split; assumption|intros id []]].
    destruct (forallb is_some _) eqn:Ea; injection E as <- <-.
    + (* complete: the user callback fires, the context is deleted *)
      split.
      * split; [exact Hle|]. destruct Hq as [Hq|Hq]; [left; exact Hq|right].
        intros fid' fs' H1 H2. cbn in H1. rewrite dget_ddel in H1. destruct (fid' =? fid); [discriminate|]. exact (Hq _ _ H1 H2).
      * intros id Hin. destruct (fs_ucb fs) eqn:Eu; try solve [destruct Hin]. destruct Hin as [H|[]]. injection H as -> Hf.
        destruct ok.
        -- (* stored flag is true: a false among the acks is an old one *)
           destruct Hq as [Hq|Hq]; [left; exact Hq|right].
           assert (Hin : In (Some false) (fs_acks fs)).
           { apply (set_nth_true_false _ (Z.to_nat idx)). apply all_some_not_all_true; [exact Ea|exact Hf]. }
           destruct (Hq _ _ Eg Hin) as (fs0 & G1 & G2 & G3). exists fid, fs0. rewrite G2, Eu. auto.
        -- left. apply Hok. reflexivity.
    + (* not complete: the flag is stored *)
      split; [|intros id []]. split; [exact Hle|].
      destruct ok; [|left; apply Hok; reflexivity].
      destruct Hq as [Hq|Hq]; [left; exact Hq|right].
      intros fid' fs' H1 H2. cbn in H1. rewrite dget_dset in H1. destruct (fid' =? fid) eqn:Ef.
      * apply Z.eqb_eq in Ef. subst fid'. injection H1 as <-. cbn in H2. apply set_nth_true_false in H2.
        destruct (Hq _ _ Eg H2) as (fs0 & G1 & G2 & G3). exists fs0. cbn. auto.
      * exact (Hq _ _ H1 H2).
  - injection E as <- <-. split; [split; assumption|]. intros id Hin. destruct ok; [destruct Hin|destruct Hin as [H|[]]; discriminate].
  - injection E as <- <-. split; [split; assumption|]. intros id Hin. destruct ok; [destruct Hin|destruct Hin as [H|[]]; discriminate].
  - injection E as <- <-. split; [split; assumption|]. intros id [H|[]]. discriminate.
Qed.

Lemma false_ok_mono c0 a b o : c_timeouts a <= c_timeouts b -> false_ok c0 a o -> false_ok c0 b o.
Proof. intros H F id Hin. destruct (F id Hin) as [G|G]; [left; lia|right; exact G]. Qed.

Lemma false_ok_app c0 c' a b : false_ok c0 c' a -> false_ok c0 c' b -> false_ok c0 c' (a ++ b).
Proof. intros A B id Hin. apply in_app_or in Hin as [H|H]; [apply A|apply B]; exact H. Qed.

Lemma fire_cb_false c0 cur k ok c' o :
  Q c0 cur -> (ok = false -> c_timeouts c0 < c_timeouts cur) ->
  fire_cb cur k ok = (c', o) -> Q c0 c' /\ false_ok c0 c' o.
Proof.
  intros HQ Hok E. unfold fire_cb in E. destruct k as [i|rid mseq ty p i]; [eapply fire_icb_false; eassumption|].
  destruct (zmem rid (c_done cur)); [injection E as <- <-; split; [exact HQ|intros id []]|].
  destruct (negb ok) eqn:En.
  - injection E as <- <-. split; [|intros id []]. destruct HQ as [A B]. split; [exact A|].
    destruct B as [B|B]; [left; exact B|right; exact B].
  - eapply fire_icb_false; [| |exact E].
    + destruct HQ as [A B]. split; [exact A|]. destruct B as [B|B]; [left; exact B|right; exact B].
    + intros H. discriminate.
Qed.

Lemma fire_all_false ks : forall c0 cur ok c' o,
  Q c0 cur -> (ok = false -> c_timeouts c0 < c_timeouts cur) ->
  fire_all cur ks ok = (c', o) -> Q c0 c' /\ false_ok c0 c' o.
Proof.
  induction ks as [|k ks IH]; intros c0 cur ok c' o HQ Hok E; cbn [fire_all] in E.
  - injection E as <- <-. split; [exact HQ|intros id []].
  - destruct (fire_cb cur k ok) as [c1 o1] eqn:E1. destruct (fire_all c1 ks ok) as [c2 o2] eqn:E2.
    injection E as <- <-. destruct (fire_cb_false _ _ _ _ _ _ HQ Hok E1) as [Q1 F1].
    assert (Hok1 : ok = false -> c_timeouts c0 < c_timeouts c1).
    { intros H. specialize (Hok H). apply fire_cb_ack in E1 as [_ _ T _ _]. lia. }
    destruct (IH _ _ _ _ _ Q1 Hok1 E2) as [Q2 F2]. split; [exact Q2|].
    apply false_ok_app; [|exact F2]. eapply false_ok_mono; [|exact F1]. apply fire_all_ack in E2 as [_ _ T _ _]. lia.
Qed.

Lemma Q_upd c0 a b : c_pfrags b = c_pfrags a -> c_timeouts a <= c_timeouts b -> Q c0 a -> Q c0 b.
Proof.
  intros P T [A B]. split; [lia|]. destruct B as [B|B]; [left; lia|].
  right. eapply old_false_same; eassumption.
Qed.

Lemma resolve_false ok c0 cur s c' o :
  Q c0 cur -> resolve ok cur s = (c', o) -> Q c0 c' /\ false_ok c0 c' o.
Proof.
  intros HQ E. unfold resolve in E.
  set (c1 := if ok then _ else _) in E.
  assert (Q1 : Q c0 c1) by (subst c1; destruct ok; (eapply Q_upd; [| |exact HQ]; cbn; [reflexivity|lia])).
  assert (Hok : ok = false -> c_timeouts c0 < c_timeouts c1).
  { intros ->. subst c1. cbn. destruct HQ as [A _]. lia. }
  destruct (dget s (c_pcbs c1)) as [ks|].
  - destruct (fire_all c1 ks ok) as [c2 o2] eqn:E2. destruct (fire_all_false _ _ _ _ _ _ Q1 Hok E2) as [Q2 F2].
    injection E as <- <-. split.
    + eapply Q_upd; [| |exact Q2]; cbn; [destruct (dget s (c_pretry c2)); reflexivity|destruct (dget s (c_pretry c2)); cbn; lia].
    + eapply false_ok_mono; [|exact F2]. cbn. destruct (dget s (c_pretry c2)); cbn; lia.
  - injection E as <- <-. split; [|intros id []].
    eapply Q_upd; [| |exact Q1]; cbn; [destruct (dget s (c_pretry c1)); reflexivity|destruct (dget s (c_pretry c1)); cbn; lia].
Qed.

Lemma ack_loop_false h snap : forall c0 cur c' o,
  Q c0 cur -> ack_loop cur h snap = (c', o) -> Q c0 c' /\ false_ok c0 c' o.
Proof.
  induction snap as [|[s t] r IH]; intros c0 cur c' o HQ E; cbn [ack_loop] in E.
  - injection E as <- <-. split; [exact HQ|intros id []].
  - dpair E c1 o1 E1. destruct (ack_loop c1 h r) as [c2 o2] eqn:E2. injection E as <- <-.
    assert (H1 : Q c0 c1 /\ false_ok c0 c1 o1).
    { destruct (hdr_acks _ _ s); [eapply resolve_false; eassumption|].
      destruct (_ >? _); [eapply resolve_false; eassumption|]. injection E1 as <- <-. split; [exact HQ|intros id []]. }
    destruct H1 as [Q1 F1]. destruct (IH _ _ _ _ Q1 E2) as [Q2 F2]. split; [exact Q2|].
    apply false_ok_app; [|exact F2]. eapply false_ok_mono; [|exact F1]. destruct Q2 as [A _]. destruct Q1 as [B _].
    (* timeouts only grow along the loop *)
    clear - E2. revert E2. generalize c1 c2 o2. induction r as [|[s' t'] r' IHr]; intros a b ob Eb; cbn [ack_loop] in Eb.
    + injection Eb as <- <-. lia.
    + dpair Eb a1 oa1 Ea1. destruct (ack_loop a1 h r') as [a2 oa2] eqn:Ea2. injection Eb as <- <-.
      specialize (IHr _ _ _ Ea2).
      assert (c_timeouts a <= c_timeouts a1).
      { destruct (hdr_acks _ _ s'); [apply resolve_packs in Ea1 as (_ & _ & _ & T); lia|].
        destruct (_ >? _); [apply resolve_packs in Ea1 as (_ & _ & _ & T); lia|]. injection Ea1 as <- <-. lia. }
      lia.
Qed.

Lemma ack_loop_mono h snap : forall c c' o, ack_loop c h snap = (c', o) -> c_timeouts c <= c_timeouts c'.
Proof.
  induction snap as [|[s t] r IH]; intros c c' o E; cbn [ack_loop] in E.
  - injection E as <- <-. lia.
  - dpair E c1 o1 E1. destruct (ack_loop c1 h r) as [c2 o2] eqn:E2. injection E as <- <-.
    specialize (IH _ _ _ E2).
    assert (c_timeouts c <= c_timeouts c1).
    { destruct (hdr_acks _ _ s); [apply resolve_packs in E1 as (_ & _ & _ & T); lia|].
      destruct (_ >? _); [apply resolve_packs in E1 as (_ & _ & _ & T); lia|]. injection E1 as <- <-. lia. }
    lia.
Qed.

Lemma timeout_loop_mono strict now snap : forall c c' o, timeout_loop strict c now snap = (c', o) -> c_timeouts c <= c_timeouts c'.
Proof.
  induction snap as [|[s t] r IH]; intros c c' o E; cbn [timeout_loop] in E.
  - injection E as <- <-. lia.
  - dpair E c1 o1 E1. destruct (timeout_loop strict c1 now r) as [c2 o2] eqn:E2. injection E as <- <-.
    specialize (IH _ _ _ E2).
    assert (c_timeouts c <= c_timeouts c1).
    { match type of E1 with (if ?b then _ else _) = _ => destruct b end;
        [apply resolve_packs in E1 as (_ & _ & _ & T); lia|injection E1 as <- <-; lia]. }
    lia.
Qed.

Lemma timeout_loop_false strict now snap : forall c0 cur c' o,
  Q c0 cur -> timeout_loop strict cur now snap = (c', o) -> Q c0 c' /\ false_ok c0 c' o.
Proof.
  induction snap as [|[s t] r IH]; intros c0 cur c' o HQ E; cbn [timeout_loop] in E.
  - injection E as <- <-. split; [exact HQ|intros id []].
  - dpair E c1 o1 E1. destruct (timeout_loop strict c1 now r) as [c2 o2] eqn:E2. injection E as <- <-.
    assert (H1 : Q c0 c1 /\ false_ok c0 c1 o1).
    { match type of E1 with (if ?b then _ else _) = _ => destruct b end; [eapply resolve_false; eassumption|].
      injection E1 as <- <-. split; [exact HQ|intros id []]. }
    destruct H1 as [Q1 F1]. destruct (IH _ _ _ _ Q1 E2) as [Q2 F2]. split; [exact Q2|].
    apply false_ok_app; [|exact F2]. eapply false_ok_mono; [|exact F1].
    clear - E2. revert E2. generalize c1 c2 o2. induction r as [|[s' t'] r' IHr]; intros a b ob Eb; cbn [timeout_loop] in Eb.
    + injection Eb as <- <-. lia.
    + dpair Eb a1 oa1 Ea1. destruct (timeout_loop strict a1 now r') as [a2 oa2] eqn:Ea2. injection Eb as <- <-.
      specialize (IHr _ _ _ Ea2).
      assert (c_timeouts a <= c_timeouts a1).
      { match type of Ea1 with (if ?b then _ else _) = _ => destruct b end;
          [apply resolve_packs in Ea1 as (_ & _ & _ & T); lia|injection Ea1 as <- <-; lia]. }
      lia.
Qed.

Lemma no_cb_false_ok c0 c' o : (forall id b, ~ In (OCallback id b) o) -> false_ok c0 c' o.
Proof. intros H id Hin. exfalso. exact (H _ _ Hin). Qed.

Lemma recv_false c now d orcs c' o : recv c now d orcs = (c', o) -> false_ok c c' o /\ c_timeouts c <= c_timeouts c'.
Proof.
  unfold recv. intros E.
  assert (Hr : forall b id v, ~ In (OCallback id v) [ORet b]) by (intros b id v [H|[]]; discriminate).
  destruct (keyless_refuses c (d_hdr d)); [injection E as <- <-; split; [apply no_cb_false_ok, Hr|cbn; lia]|].
  destruct (open_dgram (c_key c) d) as [ms|]; [|injection E as <- <-; split; [apply no_cb_false_ok, Hr|cbn; lia]].
  destruct (bf_insert (c_bf_pkt c) _) as [bf|]; [|injection E as <- <-; split; [apply no_cb_false_ok, Hr|cbn; lia]].
  match type of E with context [handle_ack_bits ?c0 _] => set (cc := c0) in E end.
  assert (Qcc : Q c cc) by (eapply Q_upd; [| |apply Q_refl]; subst cc; cbn; [reflexivity|lia]).
  destruct (handle_ack_bits cc (d_hdr d)) as [c1 o1] eqn:E1.
  destruct (recv_msgs c1 now ms orcs) as [c2 o2] eqn:E2. injection E as <- <-.
  unfold handle_ack_bits in E1. destruct (ack_loop_false _ _ _ _ _ _ Qcc E1) as [[T1 _] F1].
  pose proof (recv_msgs_ack _ _ _ _ _ _ E2) as [_ _ T2 _ _].
  split; [|lia].
  apply false_ok_app; [eapply false_ok_mono; [|exact F1]; lia|].
  apply no_cb_false_ok. intros id v Hin. apply in_app_or in Hin as [Hin|Hin].
  - exact (recv_msgs_no_cb _ _ _ _ _ _ _ _ E2 Hin).
  - destruct (raised o2); [destruct Hin|exact (Hr _ _ _ Hin)].
Qed.

Lemma build_packet_Q e c now c' r : build_packet e c now = (c', r) -> c_pfrags c' = c_pfrags c /\ c_timeouts c' = c_timeouts c.
Proof.
  intros E. split; [eapply build_packet_pfrags; exact E|]. apply build_packet_packs in E as (_ & T & _). exact T.
Qed.

(* every event: a reported failure means a datagram was declared timed out in this very step,
   or a fragment of that message had already been declared timed out *)
Theorem step_false e c x c' o : step e c x = (c', o) -> false_ok c c' o.
Proof.
  intros E. destruct x; cbn [step] in E.
  - apply no_cb_false_ok. intros id v Hin. unfold send in E. destruct (negb _); [injection E as <- <-; destruct Hin|].
    destruct (_ >? _); [destruct (_ >? _)|]; injection E as <- <-; try solve [destruct Hin]. destruct Hin as [H|[]]; discriminate.
  - unfold client_tick in E.
    destruct (client_update c now) as [c0 o0] eqn:E0.
    assert (H0 : c_pfrags c0 = c_pfrags c /\ c_timeouts c0 = c_timeouts c /\ forall id v, ~ In (OCallback id v) o0).
    { unfold client_update in E0.
      destruct (_ && (now >? _)); destruct (_ && (_ >? c_temp_timeout _)); injection E0 as <- <-;
        (split; [reflexivity|split; [reflexivity|]]); intros id v Hin; try solve [destruct Hin];
        destruct (c_conn_cb _); try solve [destruct Hin]; destruct Hin as [H|[]]; discriminate. }
    destruct H0 as (P0 & T0 & N0).
    assert (Q0 : Q c c0) by (eapply Q_upd; [| |apply Q_refl]; [exact P0|lia]).
    destruct (status_eqb (c_status c0) DROPPED); [injection E as <- <-; apply no_cb_false_ok; exact N0|].
    match type of E with context [match ?y with (_, _) => _ end] => destruct y as [c1 o1] eqn:E1 end.
    assert (H1 : Q c c1 /\ false_ok c c1 o1).
    { destruct r as [|er|d orcs].
      - injection E1 as <- <-. split; [exact Q0|intros id []].
      - injection E1 as <- <-. split; [exact Q0|intros id [H|[]]; discriminate].
      - destruct (recv c0 now d orcs) as [c'' o''] eqn:Er. injection E1 as <- <-.
        (* recv from c0: transport its result to the pre-state c (same pfrags, same counter) *)
        destruct (recv_false _ _ _ _ _ _ Er) as [F T].
        assert (Fc : false_ok c c'' o'').
        { intros id Hin. destruct (F id Hin) as [G|(fid & fs0 & G1 & G2 & G3)]; [left; lia|right].
          exists fid, fs0. rewrite <- P0. auto. }
        split.
        + (* Q c c'' : follows from the loop lemmas through recv; rebuild it *)
          unfold recv in Er.
          destruct (keyless_refuses c0 (d_hdr d)); [injection Er as <- <-; eapply Q_upd; [| |exact Q0]; cbn; [reflexivity|lia]|].
          destruct (open_dgram (c_key c0) d) as [ms|]; [|injection Er as <- <-; eapply Q_upd; [| |exact Q0]; cbn; [reflexivity|lia]].
          destruct (bf_insert (c_bf_pkt c0) _) as [bf|]; [|injection Er as <- <-; eapply Q_upd; [| |exact Q0]; cbn; [reflexivity|lia]].
          match type of Er with context [handle_ack_bits ?cx _] => set (cc := cx) in Er end.
          assert (Qcc : Q c cc) by (eapply Q_upd; [| |exact Q0]; subst cc; cbn; [reflexivity|lia]).
          destruct (handle_ack_bits cc (d_hdr d)) as [ca oa] eqn:Ea.
          destruct (recv_msgs ca now ms orcs) as [cb ob] eqn:Eb. injection Er as <- <-.
          unfold handle_ack_bits in Ea. destruct (ack_loop_false _ _ _ _ _ _ Qcc Ea) as [Qa _].
          eapply Q_upd; [| |exact Qa]; [eapply recv_msgs_pfrags; exact Eb|].
          apply recv_msgs_ack in Eb as [_ _ Tb _ _]. lia.
        + intros id Hin. apply filter_In in Hin as [Hin _]. exact (Fc id Hin). }
    destruct H1 as [Q1 F1].
    destruct (raised o1); [injection E as <- <-; apply false_ok_app; [apply no_cb_false_ok; exact N0|exact F1]|].
    destruct (_ >? _); [|injection E as <- <-; apply false_ok_app; [apply no_cb_false_ok; exact N0|exact F1]].
    destruct (build_packet e c1 now) as [c2 pk] eqn:E2.
    destruct (check_timeout false c2 now) as [c3 o3] eqn:E3. injection E as <- <-.
    destruct (build_packet_Q _ _ _ _ _ E2) as [P2 T2].
    assert (Q2 : Q c c2) by (eapply Q_upd; [| |exact Q1]; [exact P2|lia]).
    unfold check_timeout in E3. destruct (timeout_loop_false _ _ _ _ _ _ _ Q2 E3) as [[T3 _] F3].
    apply false_ok_app; [apply no_cb_false_ok; exact N0|].
    apply false_ok_app; [eapply false_ok_mono; [|exact F1]; pose proof (timeout_loop_mono _ _ _ _ _ _ E3); lia|].
    apply false_ok_app; [apply no_cb_false_ok; intros id v Hin; destruct pk; [exact (emit_no_cb _ _ _ _ Hin)|destruct Hin]|exact F3].
  - unfold server_tick in E. destruct (_ >? _); [|injection E as <- <-; intros id []].
    destruct (build_packet e c now) as [c1 pk] eqn:E1.
    destruct (check_timeout true c1 now) as [c2 o2] eqn:E2. injection E as <- <-.
    destruct (build_packet_Q _ _ _ _ _ E1) as [P1 T1].
    assert (Q1 : Q c c1) by (eapply Q_upd; [| |apply Q_refl]; [exact P1|lia]).
    unfold check_timeout in E2. destruct (timeout_loop_false _ _ _ _ _ _ _ Q1 E2) as [_ F2].
    apply false_ok_app; [exact F2|].
    apply no_cb_false_ok. intros id v Hin. destruct pk; [exact (emit_no_cb _ _ _ _ Hin)|destruct Hin].
  - apply recv_false in E as [F _]. exact F.
  - injection E as <- <-. intros id [].
  - injection E as <- <-. intros id [].
  - injection E as <- <-. intros id [].
  - injection E as <- <-. intros id [].
  - injection E as <- <-. intros id [].
Qed.

(* ... and a datagram is declared timed out only when it is at least message-time-out old *)
Lemma timeout_loop_due strict now snap : forall c c' o,
  timeout_loop strict c now snap = (c', o) -> c_timeouts c < c_timeouts c' ->
  exists s t, In (s, t) snap /\ c_out_timeout c <= now - t.
Proof.
  induction snap as [|[s t] r IH]; intros c c' o E Hlt; cbn [timeout_loop] in E.
  - injection E as <- <-. lia.
  - dpair E c1 o1 E1. destruct (timeout_loop strict c1 now r) as [c2 o2] eqn:E2. injection E as <- <-.
    match type of E1 with (if ?b then _ else _) = _ => destruct b eqn:Ed end.
    + exists s, t. split; [left; reflexivity|]. destruct strict; lia.
    + injection E1 as <- <-. destruct (IH _ _ _ E2 Hlt) as (s' & t' & Hi & Hd). exists s', t'. split; [right; exact Hi|exact Hd].
Qed.

Lemma ack_loop_due h snap : forall c c' o,
  ack_loop c h snap = (c', o) -> c_timeouts c < c_timeouts c' ->
  exists s t, In (s, t) snap /\ c_out_timeout c < c_last_recv c - t.
Proof.
  induction snap as [|[s t] r IH]; intros c c' o E Hlt; cbn [ack_loop] in E.
  - injection E as <- <-. lia.
  - dpair E c1 o1 E1. destruct (ack_loop c1 h r) as [c2 o2] eqn:E2. injection E as <- <-.
    destruct (hdr_acks _ _ s).
    + pose proof (resolve_packs _ _ _ _ _ E1) as (_ & _ & _ & T1). apply resolve_frame in E1 as [[[_ _ _ _ _ _ O _] _ _ R] _].
      destruct (IH _ _ _ E2 ltac:(lia)) as (s' & t' & Hi & Hd). exists s', t'. split; [right; exact Hi|]. lia.
    + destruct (c_last_recv c - t >? c_out_timeout c) eqn:Ed.
      * exists s, t. split; [left; reflexivity|lia].
      * injection E1 as <- <-. destruct (IH _ _ _ E2 Hlt) as (s' & t' & Hi & Hd). exists s', t'. split; [right; exact Hi|exact Hd].
Qed.

Lemma ack_loop_incl h snap : forall c c' o, ack_loop c h snap = (c', o) -> forall x, In x (c_packs c') -> In x (c_packs c).
Proof.
  induction snap as [|[s t] r IH]; intros c c' o E x Hx; cbn [ack_loop] in E.
  - injection E as <- <-. exact Hx.
  - dpair E c1 o1 E1. destruct (ack_loop c1 h r) as [c2 o2] eqn:E2. injection E as <- <-.
    apply (IH _ _ _ E2) in Hx.
    destruct (hdr_acks _ _ s); [apply resolve_packs in E1 as (P & _); rewrite P in Hx; apply ddel_In in Hx as [Hx _]; exact Hx|].
    destruct (_ >? _); [apply resolve_packs in E1 as (P & _); rewrite P in Hx; apply ddel_In in Hx as [Hx _]; exact Hx|].
    injection E1 as <- <-. exact Hx.
Qed.

Lemma recv_due c now d orcs c' o : recv c now d orcs = (c', o) ->
  (forall x, In x (c_packs c') -> In x (c_packs c)) /\ c_out_timeout c' = c_out_timeout c /\
  (c_timeouts c < c_timeouts c' -> exists s t, In (s, t) (c_packs c) /\ c_out_timeout c < now - t).
Proof.
  unfold recv. intros E.
  destruct (keyless_refuses c (d_hdr d)); [injection E as <- <-; cbn; repeat split; auto; lia|].
  destruct (open_dgram (c_key c) d) as [ms|]; [|injection E as <- <-; cbn; repeat split; auto; lia].
  destruct (bf_insert (c_bf_pkt c) _) as [bf|]; [|injection E as <- <-; cbn; repeat split; auto; lia].
  match type of E with context [handle_ack_bits ?c0 _] => set (cc := c0) in E end.
  destruct (handle_ack_bits cc (d_hdr d)) as [c1 o1] eqn:E1.
  destruct (recv_msgs c1 now ms orcs) as [c2 o2] eqn:E2. injection E as <- <-.
  pose proof (recv_msgs_ack _ _ _ _ _ _ E2) as [P2 _ T2 _ _].
  pose proof (recv_msgs_frame _ _ _ _ _ _ E2) as [[_ _ _ _ _ _ O2 _] _].
  pose proof E1 as E1'. apply handle_ack_bits_frame in E1' as [[[_ _ _ _ _ _ O1 _]] _].
  unfold handle_ack_bits in E1. split; [|split].
  - intros x Hx. rewrite P2 in Hx. exact (ack_loop_incl _ _ _ _ _ E1 x Hx).
  - rewrite O2, O1. reflexivity.
  - intros Hlt. rewrite T2 in Hlt. exact (ack_loop_due _ _ _ _ _ E1 Hlt).
Qed.

Theorem step_timeout_due e c x c' o : step e c x = (c', o) -> c_timeouts c < c_timeouts c' ->
  exists s t, (In (s, t) (c_packs c) \/ t = ev_now x) /\ c_out_timeout c <= ev_now x - t.
Proof.
  intros E Hlt. destruct x; cbn [step] in E; cbn [ev_now].
  - apply send_ack in E as [_ _ T _ _]. lia.
  - unfold client_tick in E.
    destruct (client_update c now) as [c0 o0] eqn:E0.
    pose proof (client_update_ack _ _ _ _ E0) as [P0 _ T0 _ _]. apply client_update_frame in E0 as ([_ _ _ _ _ _ O0 _] & _ & _).
    destruct (status_eqb (c_status c0) DROPPED); [injection E as <- <-; lia|].
    match type of E with context [match ?y with (_, _) => _ end] => destruct y as [c1 o1] eqn:E1 end.
    assert (H1 : (forall x, In x (c_packs c1) -> In x (c_packs c)) /\ c_out_timeout c1 = c_out_timeout c /\
                 (c_timeouts c < c_timeouts c1 -> exists s t, In (s, t) (c_packs c) /\ c_out_timeout c < now - t)).
    { destruct r as [|er|d orcs]; try (injection E1 as <- <-; rewrite P0, O0, T0; repeat split; auto; lia).
      destruct (recv c0 now d orcs) as [c'' o''] eqn:Er. injection E1 as <- <-.
      destruct (recv_due _ _ _ _ _ _ Er) as (I & O & D). rewrite P0, O0, T0 in *. auto. }
    destruct H1 as (I1 & O1 & D1).
    assert (Hrecv : c_timeouts c < c_timeouts c1 -> exists s t, (In (s, t) (c_packs c) \/ t = now) /\ c_out_timeout c <= now - t).
    { intros H. destruct (D1 H) as (s & t & A & B). exists s, t. split; [left; exact A|lia]. }
    destruct (raised o1); [injection E as <- <-; auto|].
    destruct (_ >? _); [|injection E as <- <-; auto].
    destruct (build_packet e c1 now) as [c2 pk] eqn:E2.
    destruct (check_timeout false c2 now) as [c3 o3] eqn:E3. injection E as <- <-.
    pose proof (build_packet_packs _ _ _ _ _ E2) as (_ & T2 & O2 & P2).
    destruct (Z_lt_le_dec (c_timeouts c) (c_timeouts c1)) as [Hc|Hc]; [auto|].
    unfold check_timeout in E3. destruct (timeout_loop_due _ _ _ _ _ _ E3 ltac:(lia)) as (s & t & Hi & Hd).
    exists s, t. split; [|lia].
    destruct pk as [pk|]; destruct P2 as [P2 _]; rewrite P2 in Hi.
    + apply dset_In in Hi as [Hi|Hi]; [right; congruence|left; apply I1; exact Hi].
    + left. apply I1. exact Hi.
  - unfold server_tick in E. destruct (_ >? _); [|injection E as <- <-; lia].
    destruct (build_packet e c now) as [c1 pk] eqn:E1.
    destruct (check_timeout true c1 now) as [c2 o2] eqn:E2. injection E as <- <-.
    pose proof (build_packet_packs _ _ _ _ _ E1) as (_ & T1 & O1 & P1).
    unfold check_timeout in E2. destruct (timeout_loop_due _ _ _ _ _ _ E2 ltac:(lia)) as (s & t & Hi & Hd).
    exists s, t. split; [|lia].
    destruct pk as [pk|]; destruct P1 as [P1 _]; rewrite P1 in Hi.
    + apply dset_In in Hi as [Hi|Hi]; [right; congruence|left; exact Hi].
    + left. exact Hi.
  - destruct (recv_due _ _ _ _ _ _ E) as (_ & _ & D). destruct (D Hlt) as (s & t & A & B). exists s, t. split; [left; exact A|lia].
  - injection E as <- <-. unfold disconnect in Hlt. destruct (_ || _); cbn in Hlt; lia.
  - injection E as <- <-. destruct which as [|[[q|q|]|[q|q|]|]|q]; cbn in Hlt; lia.
  - injection E as <- <-. cbn in Hlt. lia.
  - injection E as <- <-. cbn in Hlt. lia.
  - injection E as <- <-. cbn in Hlt. lia.
Qed.
