(* CallbackP.v — C07: when the connection reports success / failure of a send. *)
From Coq Require Import Lia ZifyBool.
From RecordUpdate Require Import RecordUpdate.
From Model Require Import Base SeqNum Wire Conn.
From Proofs Require Import Tac SeqNumP ConnFrameP NonceP PackP ClearP AckP.
Import RecordSetNotations.
Open Scope Z_scope.

Definition cb_true (o : list out) : Prop := exists id, In (OCallback id true) o.

(* ---------- fragment sender contexts in pending_fragments are never complete ---------- *)
Definition incomplete (fs : fsender) : Prop := forallb is_some (fs_acks fs) = false.
Definition Inc (c : conn) : Prop := Forall (fun p => incomplete (snd p)) (c_pfrags c).

Lemma fire_icb_Inc c k ok c' o : Inc c -> fire_icb c k ok = (c', o) -> Inc c'.
Proof.
  unfold fire_icb, Inc. intros I E. destruct k; try (injection E as <- <-; exact I).
  destruct (dget fid (c_pfrags c)) as [fs|]; [|injection E as <- <-; exact I].
  destruct (forallb is_some _) eqn:Ea; injection E as <- <-; cbn.
  - apply Forall_ddel. exact I.
  - apply Forall_dset; [exact I|]. exact Ea.
Qed.

Lemma fire_cb_Inc c k ok c' o : Inc c -> fire_cb c k ok = (c', o) -> Inc c'.
Proof.
  unfold fire_cb. intros I. destruct k as [i|rid mseq ty p i]; [apply fire_icb_Inc; exact I|].
  destruct (zmem rid (c_done c)); [intros E; injection E as <- <-; exact I|].
  destruct (negb ok); [intros E; injection E as <- <-; exact I|]. apply fire_icb_Inc. exact I.
Qed.

Lemma fire_all_Inc ks : forall c ok c' o, Inc c -> fire_all c ks ok = (c', o) -> Inc c'.
Proof.
  induction ks as [|k ks IH]; intros c ok c' o I E; cbn [fire_all] in E.
  - injection E as <- <-. exact I.
  - destruct (fire_cb c k ok) as [c1 o1] eqn:E1. destruct (fire_all c1 ks ok) as [c2 o2] eqn:E2.
    injection E as <- <-. eapply IH; [|exact E2]. eapply fire_cb_Inc; eassumption.
Qed.

Lemma resolve_Inc ok c s c' o : Inc c -> resolve ok c s = (c', o) -> Inc c'.
Proof.
  unfold resolve. intros I E.
  set (c0 := if ok then _ else _) in E. assert (I0 : Inc c0) by (subst c0; destruct ok; exact I).
  destruct (dget s (c_pcbs c0)) as [ks|].
  - destruct (fire_all c0 ks ok) as [c1 o1] eqn:E1. pose proof (fire_all_Inc _ _ _ _ _ I0 E1) as I1.
    injection E as <- <-. cbn. destruct (dget s (c_pretry c1)); exact I1.
  - injection E as <- <-. cbn. destruct (dget s (c_pretry c0)); exact I0.
Qed.

Lemma ack_loop_Inc h snap : forall c c' o, Inc c -> ack_loop c h snap = (c', o) -> Inc c'.
Proof.
  induction snap as [|[s t] r IH]; intros c c' o I E; cbn [ack_loop] in E.
  - injection E as <- <-. exact I.
  - dpair E c1 o1 E1. destruct (ack_loop c1 h r) as [c2 o2] eqn:E2. injection E as <- <-.
    eapply IH; [|exact E2]. destruct (hdr_acks _ _ s); [eapply resolve_Inc; eassumption|].
    destruct (_ >? _); [eapply resolve_Inc; eassumption|]. injection E1 as <- <-. exact I.
Qed.

Lemma timeout_loop_Inc strict now snap : forall c c' o, Inc c -> timeout_loop strict c now snap = (c', o) -> Inc c'.
Proof.
  induction snap as [|[s t] r IH]; intros c c' o I E; cbn [timeout_loop] in E.
  - injection E as <- <-. exact I.
  - dpair E c1 o1 E1. destruct (timeout_loop strict c1 now r) as [c2 o2] eqn:E2. injection E as <- <-.
    eapply IH; [|exact E2]. match type of E1 with (if ?b then _ else _) = _ => destruct b end;
      [eapply resolve_Inc; eassumption|injection E1 as <- <-; exact I].
Qed.

(* ---------- success is only ever reported while processing an acknowledgement ---------- *)
Lemma set_false_not_all_true l : forall n, forallb is_some l = false ->
  forallb is_some (set_nth n (Some false) l) = true -> forallb is_true (set_nth n (Some false) l) = false.
Proof.
  induction l as [|a l IH]; intros n H0 H1; [discriminate|].
  destruct n as [|n]; cbn [set_nth forallb is_true] in *; [reflexivity|].
  apply andb_prop in H1 as [Ha Hl]. rewrite Ha in H0. cbn [andb] in H0. rewrite (IH _ H0 Hl). apply andb_false_r.
Qed.

Lemma fire_icb_true c k c' o : Inc c -> fire_icb c k false = (c', o) -> ~ cb_true o.
Proof.
  unfold fire_icb. intros I E [id Hin]. destruct k.
  - injection E as <- <-. destruct Hin.
  - injection E as <- <-. destruct Hin as [H|[]]. discriminate.
  - destruct (dget fid (c_pfrags c)) as [fs|] eqn:Eg; [|injection E as <- <-; destruct Hin].
    destruct (forallb is_some _) eqn:Ea; injection E as <- <-; [|destruct Hin].
    destruct (fs_ucb fs); try solve [destruct Hin]. destruct Hin as [H|[]]. injection H as _ H.
    unfold Inc in I. rewrite Forall_forall in I. pose proof (I _ (dget_In _ _ _ Eg)) as Hinc. cbn in Hinc.
    rewrite (set_false_not_all_true _ _ Hinc Ea) in H. discriminate.
  - injection E as <- <-. destruct Hin as [H|[]]. discriminate.
  - injection E as <- <-. destruct Hin as [H|[]]. discriminate.
  - injection E as <- <-. destruct Hin as [H|[]]. discriminate.
Qed.

Lemma fire_all_false_true ks : forall c c' o, Inc c -> fire_all c ks false = (c', o) -> ~ cb_true o.
Proof.
  induction ks as [|k ks IH]; intros c c' o I E; cbn [fire_all] in E.
  - injection E as <- <-. intros [id []].
  - destruct (fire_cb c k false) as [c1 o1] eqn:E1. destruct (fire_all c1 ks false) as [c2 o2] eqn:E2.
    injection E as <- <-. pose proof (fire_cb_Inc _ _ _ _ _ I E1) as I1.
    intros [id Hin]. apply in_app_or in Hin as [Hin|Hin].
    + unfold fire_cb in E1. destruct k as [i|rid mseq ty p i].
      * apply (fire_icb_true _ _ _ _ I E1). exists id. exact Hin.
      * destruct (zmem rid (c_done c)); [injection E1 as <- <-; destruct Hin|].
        cbn [negb] in E1. injection E1 as <- <-. destruct Hin.
    + apply (IH _ _ _ I1 E2). exists id. exact Hin.
Qed.

Lemma resolve_false_true c s c' o : Inc c -> resolve false c s = (c', o) -> ~ cb_true o.
Proof.
  unfold resolve. intros I E.
  match type of E with context [dget s (c_pcbs ?c0)] => destruct (dget s (c_pcbs c0)) as [ks|] end.
  - match type of E with context [fire_all ?c0 ks false] => destruct (fire_all c0 ks false) as [c1 o1] eqn:E1 end.
    injection E as <- <-. eapply fire_all_false_true; [|exact E1]. exact I.
  - injection E as <- <-. intros [id []].
Qed.

Lemma timeout_loop_true strict now snap : forall c c' o, Inc c -> timeout_loop strict c now snap = (c', o) -> ~ cb_true o.
Proof.
  induction snap as [|[s t] r IH]; intros c c' o I E; cbn [timeout_loop] in E.
  - injection E as <- <-. intros [id []].
  - dpair E c1 o1 E1. destruct (timeout_loop strict c1 now r) as [c2 o2] eqn:E2. injection E as <- <-.
    assert (I1 : Inc c1).
    { match type of E1 with (if ?b then _ else _) = _ => destruct b end;
        [eapply resolve_Inc; eassumption|injection E1 as <- <-; exact I]. }
    intros [id Hin]. apply in_app_or in Hin as [Hin|Hin]; [|apply (IH _ _ _ I1 E2); exists id; exact Hin].
    match type of E1 with (if ?b then _ else _) = _ => destruct b end.
    + apply (resolve_false_true _ _ _ _ I E1). exists id. exact Hin.
    + injection E1 as <- <-. destruct Hin.
Qed.

(* the acknowledgement loop: success is reported only if some pending datagram is named by
   the (ack, ack_bits) fields of the header being processed *)
Lemma ack_loop_true h snap : forall c c' o, Inc c -> ack_loop c h snap = (c', o) -> cb_true o ->
  exists s t, In (s, t) snap /\ hdr_acks (h_ack h) (h_ackbits h) s = true.
Proof.
  induction snap as [|[s t] r IH]; intros c c' o I E Ht; cbn [ack_loop] in E.
  - injection E as <- <-. destruct Ht as [id []].
  - dpair E c1 o1 E1. destruct (ack_loop c1 h r) as [c2 o2] eqn:E2. injection E as <- <-.
    assert (I1 : Inc c1).
    { destruct (hdr_acks _ _ s); [eapply resolve_Inc; eassumption|].
      destruct (_ >? _); [eapply resolve_Inc; eassumption|]. injection E1 as <- <-. exact I. }
    destruct Ht as [id Hin]. apply in_app_or in Hin as [Hin|Hin].
    + destruct (hdr_acks (h_ack h) (h_ackbits h) s) eqn:Ea; [exists s, t; split; [left; reflexivity|exact Ea]|].
      exfalso. destruct (_ >? _).
      * apply (resolve_false_true _ _ _ _ I E1). exists id. exact Hin.
      * injection E1 as <- <-. destruct Hin.
    + destruct (IH _ _ _ I1 E2 (ex_intro _ id Hin)) as (s' & t' & Hi & Ha). exists s', t'. split; [right; exact Hi|exact Ha].
Qed.

Lemma no_cb_true_of_cb_free o : (forall id b, ~ In (OCallback id b) o) -> ~ cb_true o.
Proof. intros H [id Hin]. exact (H _ _ Hin). Qed.

Lemma recv_msgs_no_cb ms : forall c now orcs c' o id b, recv_msgs c now ms orcs = (c', o) -> ~ In (OCallback id b) o.
Proof.
  induction ms as [|m r IH]; intros c now orcs c' o id b E; cbn [recv_msgs] in E.
  - injection E as <- <-. intros [].
  - destruct (bf_insert (c_bf_msg c) (w_seq m)) as [bf|]; [|eapply IH; eassumption].
    match type of E with context [match ?x with (_, _) => _ end] => destruct x as [[c1 o1] orcs'] eqn:E1 end.
    assert (H1 : ~ In (OCallback id b) o1).
    { assert (Hh : forall ty c'' o'', recv_handshake (c <| c_bf_msg := bf |>) ty (hd no_oracle orcs) = (c'', o'') -> ~ In (OCallback id b) o'').
      { intros ty c'' o'' Eh. unfold recv_handshake in Eh.
        destruct ty, (c_server (c <| c_bf_msg := bf |>)); try (injection Eh as <- <-; intros []).
        - destruct (negb _); [injection Eh as <- <-; intros [H|[]]; discriminate|].
          destruct (negb _); injection Eh as <- <-; intros [].
        - destruct (o_parse _ =? 6); [injection Eh as <- <-; intros [H|[]]; discriminate|].
          destruct (negb _); [injection Eh as <- <-; intros [H|[]]; discriminate|].
          injection Eh as <- <-. destruct (c_conn_cb _); [intros [H|[]]; discriminate|intros []].
        - destruct (negb _); [injection Eh as <- <-; intros [H|[]]; discriminate|].
          destruct (o_temp_token _) as [t|]; [|injection Eh as <- <-; intros [H|[]]; discriminate].
          destruct (t =? _); injection Eh as <- <-; intros [H|[]]; discriminate. }
      destruct (w_type m).
      - injection E1 as <- <- <-. intros [].
      - destruct (recv_handshake _ CLIENT_HELLO _) as [c'' o''] eqn:Eh. injection E1 as <- <- <-. eapply Hh; eassumption.
      - destruct (recv_handshake _ SERVER_HELLO _) as [c'' o''] eqn:Eh. injection E1 as <- <- <-. eapply Hh; eassumption.
      - destruct (recv_handshake _ CHALLENGE_RESP _) as [c'' o''] eqn:Eh. injection E1 as <- <- <-. eapply Hh; eassumption.
      - injection E1 as <- <- <-. intros [].
      - injection E1 as <- <- <-. intros [].
      - injection E1 as <- <- <-. intros [].
      - destruct (recv_fragment _ now (w_seq m) (w_payload m)) as [c'' o''] eqn:Ef. injection E1 as <- <- <-.
        unfold recv_fragment in Ef. destruct (_ <? _)%nat; injection Ef as <- <-; [intros [H|[]]; discriminate|intros []]. }
    destruct (raised o1); [injection E as <- <-; exact H1|].
    destruct (recv_msgs c1 now r orcs') as [c2 o2] eqn:E2. injection E as <- <-.
    intros Hin. apply in_app_or in Hin as [Hin|Hin]; [exact (H1 Hin)|]. eapply IH; eassumption.
Qed.

(* receiving: success is reported only for a datagram that passes the authenticity gate (opens
   under the key the connection holds), is new, and whose header acknowledges a pending datagram *)
Definition passes_gate (c : conn) (d : dgram) : Prop :=
  keyless_refuses c (d_hdr d) = false /\ (exists ms, open_dgram (c_key c) d = Ok ms) /\ exists bf, bf_insert (c_bf_pkt c) (h_seq (d_hdr d)) = Ok bf.

Theorem recv_true c now d orcs c' o : Inc c -> recv c now d orcs = (c', o) -> cb_true o ->
  passes_gate c d /\
  exists s t, In (s, t) (c_packs c) /\ hdr_acks (h_ack (d_hdr d)) (h_ackbits (d_hdr d)) s = true.
Proof.
  unfold recv, passes_gate. intros I E Ht.
  assert (Hr : ~ cb_true [ORet false]) by (intros [id [H|[]]]; discriminate).
  destruct (keyless_refuses c (d_hdr d)); [injection E as <- <-; contradiction|].
  destruct (open_dgram (c_key c) d) as [ms|]; [|injection E as <- <-; contradiction].
  destruct (bf_insert (c_bf_pkt c) _) as [bf|]; [|injection E as <- <-; contradiction].
  match type of E with context [handle_ack_bits ?c0 _] => set (cc := c0) in E end.
  destruct (handle_ack_bits cc (d_hdr d)) as [c1 o1] eqn:E1.
  destruct (recv_msgs c1 now ms orcs) as [c2 o2] eqn:E2. injection E as <- <-.
  split; [split; [reflexivity|split; eauto]|].
  destruct Ht as [id Hin]. apply in_app_or in Hin as [Hin|Hin].
  - unfold handle_ack_bits in E1. assert (Icc : Inc cc) by exact I.
    apply (ack_loop_true _ _ _ _ _ Icc E1). exists id. exact Hin.
  - exfalso. apply in_app_or in Hin as [Hin|Hin].
    + exact (recv_msgs_no_cb _ _ _ _ _ _ _ _ E2 Hin).
    + destruct (raised o2); [destruct Hin|destruct Hin as [H|[]]; discriminate].
Qed.

Lemma recv_msgs_pfrags ms c now orcs c' o : recv_msgs c now ms orcs = (c', o) -> c_pfrags c' = c_pfrags c.
Proof.
  apply (recv_msgs_rel (keeps c_pfrags)); try (intros; reflexivity).
  - apply keeps_trans.
  - intros c0 n s p c1 o1 Ef. unfold recv_fragment in Ef. destruct (_ <? _)%nat; [injection Ef as <- <-; reflexivity|].
    injection Ef as <- <-. unfold keeps. destruct (fr_complete _); reflexivity.
  - apply recv_handshake_keeps; intros; reflexivity.
Qed.

Lemma recv_Inc c now d orcs c' o : Inc c -> recv c now d orcs = (c', o) -> Inc c'.
Proof.
  unfold recv. intros I E.
  destruct (keyless_refuses c (d_hdr d)); [injection E as <- <-; exact I|].
  destruct (open_dgram (c_key c) d) as [ms|]; [|injection E as <- <-; exact I].
  destruct (bf_insert (c_bf_pkt c) _) as [bf|]; [|injection E as <- <-; exact I].
  match type of E with context [handle_ack_bits ?c0 _] => set (cc := c0) in E end.
  assert (Icc : Inc cc) by exact I.
  destruct (handle_ack_bits cc (d_hdr d)) as [c1 o1] eqn:E1.
  destruct (recv_msgs c1 now ms orcs) as [c2 o2] eqn:E2. injection E as <- <-.
  unfold Inc. rewrite (recv_msgs_pfrags _ _ _ _ _ _ E2). eapply ack_loop_Inc; eassumption.
Qed.

Lemma build_packet_pfrags e c now c' r : build_packet e c now = (c', r) -> c_pfrags c' = c_pfrags c.
Proof.
  unfold build_packet. intros E. destruct (_ <? _); [injection E as <- <-; reflexivity|].
  destruct (build_impl e c now _ _) as [c1 r1] eqn:E1.
  assert (H1 : c_pfrags c1 = c_pfrags c).
  { unfold build_impl in E1.
    destruct (match c_pretry_msg c with [] => _ | _ => _ end) as [[prm msgs0] cur0].
    destruct (out_pass e (c_outgoing c) msgs0 cur0) as [[rem msgs] cu].
    match type of E1 with (if ?b then _ else _) = _ => destruct b end; injection E1 as <- _;
      repeat match goal with |- context [match ?x with [] => _ | _ :: _ => _ end] => destruct x end; reflexivity. }
  destruct r1; injection E as <- <-; exact H1.
Qed.

Lemma emit_no_cb c pk id b : ~ In (OCallback id b) (emit c pk).
Proof.
  destruct pk as [h ms]. unfold emit. destruct (encode_msgs _); [destruct (c_key c); [destruct (negb _)|]|];
    intros [H|[]]; discriminate.
Qed.

(* every event: success is reported only by the two receive paths *)
Theorem step_true e c x c' o : Inc c -> step e c x = (c', o) -> cb_true o ->
  exists now d orcs c0, (x = ERecv now d orcs /\ c0 = c \/
                         x = EClientTick now (RxDgram d orcs) /\ c0 = fst (client_update c now)) /\
    passes_gate c0 d /\
    exists s t, In (s, t) (c_packs c0) /\ hdr_acks (h_ack (d_hdr d)) (h_ackbits (d_hdr d)) s = true.
Proof.
  intros I E Ht. destruct x; cbn [step] in E.
  - exfalso. destruct Ht as [id Hin]. unfold send in E. destruct (negb _); [injection E as <- <-; destruct Hin|].
    destruct (_ >? _); [destruct (_ >? _)|]; injection E as <- <-; try solve [destruct Hin]. destruct Hin as [H|[]]; discriminate.
  - unfold client_tick in E.
    destruct (client_update c now) as [c0 o0] eqn:E0.
    assert (I0 : Inc c0).
    { unfold client_update in E0.
      destruct (_ && (now >? _)); destruct (_ && (_ >? c_temp_timeout _)); injection E0 as <- <-; exact I. }
    assert (N0 : forall id b, ~ In (OCallback id b) o0).
    { intros id b Hin. unfold client_update in E0.
      destruct (_ && (now >? _)); destruct (_ && (_ >? c_temp_timeout _)); injection E0 as <- <-;
        try solve [destruct Hin]; destruct (c_conn_cb _); try solve [destruct Hin]; destruct Hin as [H|[]]; discriminate. }
    destruct (status_eqb (c_status c0) DROPPED); [injection E as <- <-; exfalso; destruct Ht as [id Hin]; exact (N0 _ _ Hin)|].
    match type of E with context [match ?y with (_, _) => _ end] => destruct y as [c1 o1] eqn:E1 end.
    assert (Htail : forall ot, o = o0 ++ o1 ++ ot -> ~ cb_true ot -> cb_true o1).
    { intros ot -> Hn. destruct Ht as [id Hin]. apply in_app_or in Hin as [Hin|Hin]; [exfalso; exact (N0 _ _ Hin)|].
      apply in_app_or in Hin as [Hin|Hin]; [exists id; exact Hin|exfalso; apply Hn; exists id; exact Hin]. }
    assert (I1 : Inc c1).
    { destruct r as [|er|d orcs]; try (injection E1 as <- <-; exact I0).
      destruct (recv c0 now d orcs) as [c'' o''] eqn:Er. injection E1 as <- <-. eapply recv_Inc; eassumption. }
    assert (Ho1 : cb_true o1).
    { destruct (raised o1); [injection E as <- <-; apply (Htail []); [rewrite app_nil_r; reflexivity|intros [id []]]|].
      destruct (_ >? _); [|injection E as <- <-; apply (Htail []); [rewrite app_nil_r; reflexivity|intros [id []]]].
      destruct (build_packet e c1 now) as [c2 pk] eqn:E2.
      destruct (check_timeout false c2 now) as [c3 o3] eqn:E3. injection E as <- <-.
      apply (Htail (match pk with Some p => emit c2 p | None => [] end ++ o3)); [reflexivity|].
      intros [id Hin]. apply in_app_or in Hin as [Hin|Hin].
      - destruct pk; [exact (emit_no_cb _ _ _ _ Hin)|destruct Hin].
      - assert (I2 : Inc c2) by (unfold Inc; rewrite (build_packet_pfrags _ _ _ _ _ E2); exact I1).
        apply (timeout_loop_true _ _ _ _ _ _ I2 E3). exists id. exact Hin. }
    destruct r as [|er|d orcs].
    + injection E1 as <- <-. destruct Ho1 as [id []].
    + injection E1 as <- <-. destruct Ho1 as [id [H|[]]]. discriminate.
    + destruct (recv c0 now d orcs) as [c'' o''] eqn:Er. injection E1 as <- <-.
      assert (Ht'' : cb_true o'') by (destruct Ho1 as [id Hin]; exists id; apply filter_In in Hin as [Hin _]; exact Hin).
      destruct (recv_true _ _ _ _ _ _ I0 Er Ht'') as (G & Hs).
      exists now, d, orcs, c0. split; [right; split; [reflexivity|rewrite E0; reflexivity]|]. split; assumption.
  - exfalso. unfold server_tick in E. destruct (_ >? _); [|injection E as <- <-; destruct Ht as [id []]].
    destruct (build_packet e c now) as [c1 pk] eqn:E1.
    destruct (check_timeout true c1 now) as [c2 o2] eqn:E2. injection E as <- <-.
    destruct Ht as [id Hin]. apply in_app_or in Hin as [Hin|Hin].
    + assert (I1 : Inc c1) by (unfold Inc; rewrite (build_packet_pfrags _ _ _ _ _ E1); exact I).
      apply (timeout_loop_true _ _ _ _ _ _ I1 E2). exists id. exact Hin.
    + destruct pk; [exact (emit_no_cb _ _ _ _ Hin)|destruct Hin].
  - destruct (recv_true _ _ _ _ _ _ I E Ht) as (G & Hs). exists now, d, orcs, c. split; [left; split; reflexivity|]. split; assumption.
  - injection E as <- <-. destruct Ht as [id []].
  - injection E as <- <-. destruct Ht as [id []].
  - injection E as <- <-. destruct Ht as [id []].
  - injection E as <- <-. destruct Ht as [id []].
  - injection E as <- <-. destruct Ht as [id []].
Qed.
