(* C20P.v — proofs of the C20 statements (Properties/C20.v). *)
From Coq Require Import Lia ZifyBool.
From Model Require Import Base Dispatch.
From Proofs Require Import Tac DispatchP.
Open Scope Z_scope.

Lemma len_call_args : forall A k (c s m : A), len (call_args k c s m) = nargs k.
Proof. intros A [] c s m; reflexivity. Qed.

(* 1. dispatch calls exactly the one registered handler, arguments unchanged *)
Lemma C20_dispatch_exact_proof : forall A k (ops : list (op A)) n h (client seqnum msg : A),
  let t := table_of k ops in
  In (n, h) t ->
  (forall h', In (n, h') t -> h' = h) /\
  (h_arity h = nargs k ->
     dispatch_msg k t client seqnum n msg
     = Ok [(h_id h, match k with KServer => [client; seqnum; msg] | KClient => [seqnum; msg] end)]) /\
  (h_arity h <> nargs k -> dispatch_msg k t client seqnum n msg = Err EType) /\
  fst (step k t (ODispatch client seqnum n msg)) = t.
Proof.
  intros A k ops n h client seqnum msg t H.
  pose proof (wf_table_of A k ops) as W. fold t in W.
  pose proof (In_lookup _ _ _ W H) as L.
  split; [|split; [|split]].
  - intros h' H'. eapply wf_unique; eauto.
  - intro Ar. unfold dispatch_msg, invoke. rewrite L, len_call_args.
    assert (h_arity h =? nargs k = true) as -> by lia. destruct k; reflexivity.
  - intro Ar. unfold dispatch_msg, invoke. rewrite L, len_call_args.
    assert (h_arity h =? nargs k = false) as -> by lia. reflexivity.
  - reflexivity.
Qed.

(* 2. no handler for the class: DispatchError, nothing called, table untouched *)
Lemma C20_dispatch_unknown_proof : forall A k (t : table) n (client seqnum msg : A),
  (forall h, ~ In (n, h) t) ->
  dispatch_msg k t client seqnum n msg = Err EDispatch /\
  step k t (ODispatch client seqnum n msg) = (t, OCalls (Err EDispatch)).
Proof.
  intros A k t n c s m H.
  assert (lookup t n = None) as L.
  { destruct (lookup t n) eqn:E; [|reflexivity]. apply lookup_In in E. exfalso. eapply H; eauto. }
  unfold step, dispatch_msg, invoke. rewrite L. split; reflexivity.
Qed.

(* 3. a second handler for a class is refused; what was registered stays registered *)
Lemma C20_duplicate_refused_proof : forall A k (ops : list (op A)),
  let t := table_of k ops in
  (forall a h h0, In (ev_name a, h0) t -> register_function t a h = (t, Err EOther)) /\
  (forall r, (exists m h0, In m r /\ In (ev_name (m_ann m), h0) t) ->
     exists t', register t r = (t', Err EOther) /\ forall n h, In (n, h) t -> lookup t' n = Some h).
Proof.
  intros A k ops t. pose proof (wf_table_of A k ops) as W. fold t in W. split.
  - intros a h h0 H. unfold register_function.
    assert (has t (ev_name a) = true) as -> by (apply has_In; eapply In_keys; eauto). reflexivity.
  - intros r [m [h0 [Hm Hb]]]. destruct (register t r) as [t' x] eqn:E. exists t'.
    assert (x = Err EOther) as ->.
    { destruct x as [[]|e].
      - exfalso. assert (exists t', register t r = (t', Ok tt)) as K by (eexists; eauto).
        apply register_ok_iff in K. destruct K as [_ K]. apply (K (ename m)).
        + unfold names. apply in_map. exact Hm.
        + eapply In_keys; eauto.
      - apply register_err_kind in E. congruence. }
    split; [reflexivity|]. intros n h H. apply register_extends in E. destruct E as [j E].
    rewrite E, lookup_app, (In_lookup _ _ _ W H). reflexivity.
Qed.

(* 4. unregister undoes register exactly (same table, same order), and register works again *)
Lemma C20_unregister_inverse_proof : forall t r t',
  register t r = (t', Ok tt) ->
  unregister t' r = (t, Ok tt) /\ register (fst (unregister t' r)) r = (t', Ok tt).
Proof.
  intros t r t' H.
  assert (unregister t' r = (t, Ok tt)) as U.
  { rewrite unregister_spec. f_equal.
    assert (exists t', register t r = (t', Ok tt)) as K by (eexists; eauto).
    apply register_ok_iff in K. destruct K as [_ K].
    apply register_ok_table in H. subst t'.
    rewrite without_app, without_own, app_nil_r. apply without_disjoint. exact K. }
  split; [exact U|]. rewrite U. exact H.
Qed.

(* 5. after unregister(resource) — from ANY table — none of its classes has a handler
      (dispatch raises DispatchError), other classes are untouched, and the resource can be
      registered (again) provided its own methods name distinct classes *)
Lemma C20_unregister_effect_proof : forall t r,
  exists t', unregister t r = (t', Ok tt) /\
    (forall m, In m r -> forall A k (c s msg : A),
        dispatch_msg k t' c s (ev_name (m_ann m)) msg = Err EDispatch) /\
    (forall n, ~ In n (map (fun m => ev_name (m_ann m)) r) -> lookup t' n = lookup t n) /\
    (NoDup (map (fun m => ev_name (m_ann m)) r) -> exists t'', register t' r = (t'', Ok tt)).
Proof.
  intros t r. exists (without t (names r)). split; [apply unregister_spec|]. split; [|split].
  - intros m H A k c s msg. unfold dispatch_msg, invoke.
    rewrite lookup_without_in; [reflexivity|]. unfold names. apply (in_map ename). exact H.
  - intros n H. apply lookup_without_out. exact H.
  - intro ND. apply register_ok_iff. split; [exact ND|].
    intros n H K. rewrite keys_without in K. apply filter_In in K. destruct K as [_ K].
    apply mem_In in H. rewrite H in K. discriminate.
Qed.

(* 6. refinement: over every operation sequence the list-based table behaves as the
      mathematical finite map — same outcome for every operation, same binding for every class *)
Definition sim (t : table) (f : amap) : Prop := forall n, lookup t n = f n.

Lemma sim_bound : forall t f n, sim t f -> has t n = a_bound f n.
Proof. intros t f n S. rewrite lookup_has. unfold a_bound. rewrite S. reflexivity. Qed.

Lemma sim_set : forall t f n h, sim t f -> has t n = false -> sim (t ++ [(n, h)]) (a_set f n h).
Proof.
  intros t f n h S H m. rewrite lookup_app. unfold a_set.
  destruct (name_eqb n m) eqn:E.
  - apply name_eqb_eq in E. subst m. rewrite lookup_has in H. destruct (lookup t n); [discriminate|].
    unfold lookup. simpl. rewrite name_eqb_refl. reflexivity.
  - rewrite <- S. destruct (lookup t m); [reflexivity|]. unfold lookup. simpl. rewrite E. reflexivity.
Qed.

Lemma sim_del : forall t f n, sim t f -> sim (remove t n) (a_del f n).
Proof.
  intros t f n S m. unfold a_del. destruct (name_eqb n m) eqn:E.
  - apply name_eqb_eq in E. subst. apply lookup_remove_same.
  - apply name_eqb_neq in E. rewrite lookup_remove_other by congruence. apply S.
Qed.

Lemma sim_register : forall r t f, sim t f ->
  sim (fst (register t r)) (fst (a_register f r)) /\ snd (register t r) = snd (a_register f r).
Proof.
  induction r as [|m r IH]; simpl; intros t f S; [split; [exact S | reflexivity]|].
  unfold register_function, a_regfn. rewrite <- (sim_bound _ _ _ S).
  destruct (has t (ev_name (m_ann m))) eqn:E; simpl; [split; [exact S | reflexivity]|].
  apply IH. apply sim_set; assumption.
Qed.

Lemma sim_unregister : forall r t f, sim t f ->
  sim (fst (unregister t r)) (fst (a_unregister f r)) /\ snd (unregister t r) = snd (a_unregister f r).
Proof.
  unfold a_unregister. simpl.
  induction r as [|m r IH]; simpl; intros t f S; [split; [exact S | reflexivity]|].
  unfold unregister_function. simpl.
  destruct (has t (ev_name (m_ann m))) eqn:E.
  - apply IH. apply sim_del. exact S.
  - apply IH. rewrite <- (remove_absent _ _ E). apply sim_del. exact S.
Qed.

Lemma sim_step : forall A k t f (o : op A), sim t f ->
  sim (fst (step k t o)) (fst (a_step k f o)) /\ snd (step k t o) = snd (a_step k f o).
Proof.
  intros A k t f o S. destruct o; simpl.
  - pose proof (sim_register r t f S) as [S1 E1].
    destruct (register t r), (a_register f r). simpl in *. subst. split; [assumption | reflexivity].
  - pose proof (sim_unregister r t f S) as [S1 E1]. unfold a_unregister in *. simpl in *.
    destruct (unregister t r). simpl in *. subst. split; [assumption | reflexivity].
  - unfold register_function, a_regfn. rewrite <- (sim_bound _ _ _ S).
    destruct (has t (ev_name a)) eqn:E; simpl; split; try reflexivity; try assumption.
    apply sim_set; assumption.
  - unfold unregister_function, a_unregfn. rewrite <- (sim_bound _ _ _ S).
    destruct (has t (ev_name a)) eqn:E; simpl; split; try reflexivity; try assumption.
    apply sim_del; assumption.
  - split; [exact S|]. unfold dispatch_msg, invoke, a_dispatch. rewrite S, len_call_args. reflexivity.
Qed.

Lemma sim_run : forall A k (ops : list (op A)) t f, sim t f ->
  sim (fst (run k t ops)) (fst (a_run k f ops)) /\ snd (run k t ops) = snd (a_run k f ops).
Proof.
  induction ops as [|o ops IH]; simpl; intros t f S; [split; [exact S | reflexivity]|].
  pose proof (sim_step A k t f o S) as [S1 E1].
  destruct (step k t o) as [t1 x1], (a_step k f o) as [f1 y1]. simpl in *. subst y1.
  specialize (IH t1 f1 S1). destruct IH as [S2 E2].
  destruct (run k t1 ops), (a_run k f1 ops). simpl in *. subst. split; [assumption | reflexivity].
Qed.

Lemma C20_refines_map_proof : forall A k (ops : list (op A)),
  snd (run k [] ops) = snd (a_run k a_empty ops) /\
  (forall n, lookup (fst (run k [] ops)) n = fst (a_run k a_empty ops) n) /\
  NoDup (map fst (fst (run k [] ops))).
Proof.
  intros A k ops. pose proof (sim_run A k ops [] a_empty (fun _ => eq_refl)) as [S E].
  split; [exact E|]. split; [exact S|]. apply (wf_table_of A k ops).
Qed.
