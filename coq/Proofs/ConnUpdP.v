(* ConnUpdP.v — projection-over-update equations for the conn record (generated once by a script;
   each is closed by reflexivity on a variable).  Rewriting with them (database upd) keeps the kernel from
   comparing deeply nested record updates by conversion, which is exponential in the nesting depth. *)
From RecordUpdate Require Import RecordUpdate.
From Model Require Import Base SeqNum Wire Conn.
Import RecordSetNotations.

Lemma upd_outgoing_server c v : c_outgoing (c <| c_server := v |>) = c_outgoing c. Proof. reflexivity. Qed.
#[export] Hint Rewrite upd_outgoing_server : upd.
Lemma upd_outgoing_key c v : c_outgoing (c <| c_key := v |>) = c_outgoing c. Proof. reflexivity. Qed.
#[export] Hint Rewrite upd_outgoing_key : upd.
Lemma upd_outgoing_status c v : c_outgoing (c <| c_status := v |>) = c_outgoing c. Proof. reflexivity. Qed.
#[export] Hint Rewrite upd_outgoing_status : upd.
Lemma upd_outgoing_incoming c v : c_outgoing (c <| c_incoming := v |>) = c_outgoing c. Proof. reflexivity. Qed.
#[export] Hint Rewrite upd_outgoing_incoming : upd.
Lemma upd_outgoing_outgoing c v : c_outgoing (c <| c_outgoing := v |>) = v. Proof. reflexivity. Qed.
#[export] Hint Rewrite upd_outgoing_outgoing : upd.
Lemma upd_outgoing_packs c v : c_outgoing (c <| c_packs := v |>) = c_outgoing c. Proof. reflexivity. Qed.
#[export] Hint Rewrite upd_outgoing_packs : upd.
Lemma upd_outgoing_pcbs c v : c_outgoing (c <| c_pcbs := v |>) = c_outgoing c. Proof. reflexivity. Qed.
#[export] Hint Rewrite upd_outgoing_pcbs : upd.
Lemma upd_outgoing_pretry c v : c_outgoing (c <| c_pretry := v |>) = c_outgoing c. Proof. reflexivity. Qed.
#[export] Hint Rewrite upd_outgoing_pretry : upd.
Lemma upd_outgoing_pretry_msg c v : c_outgoing (c <| c_pretry_msg := v |>) = c_outgoing c. Proof. reflexivity. Qed.
#[export] Hint Rewrite upd_outgoing_pretry_msg : upd.
Lemma upd_outgoing_pfrags c v : c_outgoing (c <| c_pfrags := v |>) = c_outgoing c. Proof. reflexivity. Qed.
#[export] Hint Rewrite upd_outgoing_pfrags : upd.
Lemma upd_outgoing_rfrags c v : c_outgoing (c <| c_rfrags := v |>) = c_outgoing c. Proof. reflexivity. Qed.
#[export] Hint Rewrite upd_outgoing_rfrags : upd.
Lemma upd_outgoing_seq_send c v : c_outgoing (c <| c_seq_send := v |>) = c_outgoing c. Proof. reflexivity. Qed.
#[export] Hint Rewrite upd_outgoing_seq_send : upd.
Lemma upd_outgoing_seq_msg c v : c_outgoing (c <| c_seq_msg := v |>) = c_outgoing c. Proof. reflexivity. Qed.
#[export] Hint Rewrite upd_outgoing_seq_msg : upd.
Lemma upd_outgoing_seq_frag c v : c_outgoing (c <| c_seq_frag := v |>) = c_outgoing c. Proof. reflexivity. Qed.
#[export] Hint Rewrite upd_outgoing_seq_frag : upd.
Lemma upd_outgoing_bf_pkt c v : c_outgoing (c <| c_bf_pkt := v |>) = c_outgoing c. Proof. reflexivity. Qed.
#[export] Hint Rewrite upd_outgoing_bf_pkt : upd.
Lemma upd_outgoing_bf_msg c v : c_outgoing (c <| c_bf_msg := v |>) = c_outgoing c. Proof. reflexivity. Qed.
#[export] Hint Rewrite upd_outgoing_bf_msg : upd.
Lemma upd_outgoing_out_timeout c v : c_outgoing (c <| c_out_timeout := v |>) = c_outgoing c. Proof. reflexivity. Qed.
#[export] Hint Rewrite upd_outgoing_out_timeout : upd.
Lemma upd_outgoing_temp_timeout c v : c_outgoing (c <| c_temp_timeout := v |>) = c_outgoing c. Proof. reflexivity. Qed.
#[export] Hint Rewrite upd_outgoing_temp_timeout : upd.
Lemma upd_outgoing_send_interval c v : c_outgoing (c <| c_send_interval := v |>) = c_outgoing c. Proof. reflexivity. Qed.
#[export] Hint Rewrite upd_outgoing_send_interval : upd.
Lemma upd_outgoing_ka_interval c v : c_outgoing (c <| c_ka_interval := v |>) = c_outgoing c. Proof. reflexivity. Qed.
#[export] Hint Rewrite upd_outgoing_ka_interval : upd.
Lemma upd_outgoing_last_recv c v : c_outgoing (c <| c_last_recv := v |>) = c_outgoing c. Proof. reflexivity. Qed.
#[export] Hint Rewrite upd_outgoing_last_recv : upd.
Lemma upd_outgoing_last_send c v : c_outgoing (c <| c_last_send := v |>) = c_outgoing c. Proof. reflexivity. Qed.
#[export] Hint Rewrite upd_outgoing_last_send : upd.
Lemma upd_outgoing_last_ka c v : c_outgoing (c <| c_last_ka := v |>) = c_outgoing c. Proof. reflexivity. Qed.
#[export] Hint Rewrite upd_outgoing_last_ka : upd.
Lemma upd_outgoing_sent c v : c_outgoing (c <| c_sent := v |>) = c_outgoing c. Proof. reflexivity. Qed.
#[export] Hint Rewrite upd_outgoing_sent : upd.
Lemma upd_outgoing_dropped c v : c_outgoing (c <| c_dropped := v |>) = c_outgoing c. Proof. reflexivity. Qed.
#[export] Hint Rewrite upd_outgoing_dropped : upd.
Lemma upd_outgoing_received c v : c_outgoing (c <| c_received := v |>) = c_outgoing c. Proof. reflexivity. Qed.
#[export] Hint Rewrite upd_outgoing_received : upd.
Lemma upd_outgoing_acked c v : c_outgoing (c <| c_acked := v |>) = c_outgoing c. Proof. reflexivity. Qed.
#[export] Hint Rewrite upd_outgoing_acked : upd.
Lemma upd_outgoing_timeouts c v : c_outgoing (c <| c_timeouts := v |>) = c_outgoing c. Proof. reflexivity. Qed.
#[export] Hint Rewrite upd_outgoing_timeouts : upd.
Lemma upd_outgoing_assembled c v : c_outgoing (c <| c_assembled := v |>) = c_outgoing c. Proof. reflexivity. Qed.
#[export] Hint Rewrite upd_outgoing_assembled : upd.
Lemma upd_outgoing_done c v : c_outgoing (c <| c_done := v |>) = c_outgoing c. Proof. reflexivity. Qed.
#[export] Hint Rewrite upd_outgoing_done : upd.
Lemma upd_outgoing_next_rid c v : c_outgoing (c <| c_next_rid := v |>) = c_outgoing c. Proof. reflexivity. Qed.
#[export] Hint Rewrite upd_outgoing_next_rid : upd.
Lemma upd_outgoing_hello_sent c v : c_outgoing (c <| c_hello_sent := v |>) = c_outgoing c. Proof. reflexivity. Qed.
#[export] Hint Rewrite upd_outgoing_hello_sent : upd.
Lemma upd_outgoing_conn_cb c v : c_outgoing (c <| c_conn_cb := v |>) = c_outgoing c. Proof. reflexivity. Qed.
#[export] Hint Rewrite upd_outgoing_conn_cb : upd.
Lemma upd_outgoing_token c v : c_outgoing (c <| c_token := v |>) = c_outgoing c. Proof. reflexivity. Qed.
#[export] Hint Rewrite upd_outgoing_token : upd.
Lemma upd_pretry_msg_server c v : c_pretry_msg (c <| c_server := v |>) = c_pretry_msg c. Proof. reflexivity. Qed.
#[export] Hint Rewrite upd_pretry_msg_server : upd.
Lemma upd_pretry_msg_key c v : c_pretry_msg (c <| c_key := v |>) = c_pretry_msg c. Proof. reflexivity. Qed.
#[export] Hint Rewrite upd_pretry_msg_key : upd.
Lemma upd_pretry_msg_status c v : c_pretry_msg (c <| c_status := v |>) = c_pretry_msg c. Proof. reflexivity. Qed.
#[export] Hint Rewrite upd_pretry_msg_status : upd.
Lemma upd_pretry_msg_incoming c v : c_pretry_msg (c <| c_incoming := v |>) = c_pretry_msg c. Proof. reflexivity. Qed.
#[export] Hint Rewrite upd_pretry_msg_incoming : upd.
Lemma upd_pretry_msg_outgoing c v : c_pretry_msg (c <| c_outgoing := v |>) = c_pretry_msg c. Proof. reflexivity. Qed.
#[export] Hint Rewrite upd_pretry_msg_outgoing : upd.
Lemma upd_pretry_msg_packs c v : c_pretry_msg (c <| c_packs := v |>) = c_pretry_msg c. Proof. reflexivity. Qed.
#[export] Hint Rewrite upd_pretry_msg_packs : upd.
Lemma upd_pretry_msg_pcbs c v : c_pretry_msg (c <| c_pcbs := v |>) = c_pretry_msg c. Proof. reflexivity. Qed.
#[export] Hint Rewrite upd_pretry_msg_pcbs : upd.
Lemma upd_pretry_msg_pretry c v : c_pretry_msg (c <| c_pretry := v |>) = c_pretry_msg c. Proof. reflexivity. Qed.
#[export] Hint Rewrite upd_pretry_msg_pretry : upd.
Lemma upd_pretry_msg_pretry_msg c v : c_pretry_msg (c <| c_pretry_msg := v |>) = v. Proof. reflexivity. Qed.
#[export] Hint Rewrite upd_pretry_msg_pretry_msg : upd.
Lemma upd_pretry_msg_pfrags c v : c_pretry_msg (c <| c_pfrags := v |>) = c_pretry_msg c. Proof. reflexivity. Qed.
#[export] Hint Rewrite upd_pretry_msg_pfrags : upd.
Lemma upd_pretry_msg_rfrags c v : c_pretry_msg (c <| c_rfrags := v |>) = c_pretry_msg c. Proof. reflexivity. Qed.
#[export] Hint Rewrite upd_pretry_msg_rfrags : upd.
Lemma upd_pretry_msg_seq_send c v : c_pretry_msg (c <| c_seq_send := v |>) = c_pretry_msg c. Proof. reflexivity. Qed.
#[export] Hint Rewrite upd_pretry_msg_seq_send : upd.
Lemma upd_pretry_msg_seq_msg c v : c_pretry_msg (c <| c_seq_msg := v |>) = c_pretry_msg c. Proof. reflexivity. Qed.
#[export] Hint Rewrite upd_pretry_msg_seq_msg : upd.
Lemma upd_pretry_msg_seq_frag c v : c_pretry_msg (c <| c_seq_frag := v |>) = c_pretry_msg c. Proof. reflexivity. Qed.
#[export] Hint Rewrite upd_pretry_msg_seq_frag : upd.
Lemma upd_pretry_msg_bf_pkt c v : c_pretry_msg (c <| c_bf_pkt := v |>) = c_pretry_msg c. Proof. reflexivity. Qed.
#[export] Hint Rewrite upd_pretry_msg_bf_pkt : upd.
Lemma upd_pretry_msg_bf_msg c v : c_pretry_msg (c <| c_bf_msg := v |>) = c_pretry_msg c. Proof. reflexivity. Qed.
#[export] Hint Rewrite upd_pretry_msg_bf_msg : upd.
Lemma upd_pretry_msg_out_timeout c v : c_pretry_msg (c <| c_out_timeout := v |>) = c_pretry_msg c. Proof. reflexivity. Qed.
#[export] Hint Rewrite upd_pretry_msg_out_timeout : upd.
Lemma upd_pretry_msg_temp_timeout c v : c_pretry_msg (c <| c_temp_timeout := v |>) = c_pretry_msg c. Proof. reflexivity. Qed.
#[export] Hint Rewrite upd_pretry_msg_temp_timeout : upd.
Lemma upd_pretry_msg_send_interval c v : c_pretry_msg (c <| c_send_interval := v |>) = c_pretry_msg c. Proof. reflexivity. Qed.
#[export] Hint Rewrite upd_pretry_msg_send_interval : upd.
Lemma upd_pretry_msg_ka_interval c v : c_pretry_msg (c <| c_ka_interval := v |>) = c_pretry_msg c. Proof. reflexivity. Qed.
#[export] Hint Rewrite upd_pretry_msg_ka_interval : upd.
Lemma upd_pretry_msg_last_recv c v : c_pretry_msg (c <| c_last_recv := v |>) = c_pretry_msg c. Proof. reflexivity. Qed.
#[export] Hint Rewrite upd_pretry_msg_last_recv : upd.
Lemma upd_pretry_msg_last_send c v : c_pretry_msg (c <| c_last_send := v |>) = c_pretry_msg c. Proof. reflexivity. Qed.
#[export] Hint Rewrite upd_pretry_msg_last_send : upd.
Lemma upd_pretry_msg_last_ka c v : c_pretry_msg (c <| c_last_ka := v |>) = c_pretry_msg c. Proof. reflexivity. Qed.
#[export] Hint Rewrite upd_pretry_msg_last_ka : upd.
Lemma upd_pretry_msg_sent c v : c_pretry_msg (c <| c_sent := v |>) = c_pretry_msg c. Proof. reflexivity. Qed.
#[export] Hint Rewrite upd_pretry_msg_sent : upd.
Lemma upd_pretry_msg_dropped c v : c_pretry_msg (c <| c_dropped := v |>) = c_pretry_msg c. Proof. reflexivity. Qed.
#[export] Hint Rewrite upd_pretry_msg_dropped : upd.
Lemma upd_pretry_msg_received c v : c_pretry_msg (c <| c_received := v |>) = c_pretry_msg c. Proof. reflexivity. Qed.
#[export] Hint Rewrite upd_pretry_msg_received : upd.
Lemma upd_pretry_msg_acked c v : c_pretry_msg (c <| c_acked := v |>) = c_pretry_msg c. Proof. reflexivity. Qed.
#[export] Hint Rewrite upd_pretry_msg_acked : upd.
Lemma upd_pretry_msg_timeouts c v : c_pretry_msg (c <| c_timeouts := v |>) = c_pretry_msg c. Proof. reflexivity. Qed.
#[export] Hint Rewrite upd_pretry_msg_timeouts : upd.
Lemma upd_pretry_msg_assembled c v : c_pretry_msg (c <| c_assembled := v |>) = c_pretry_msg c. Proof. reflexivity. Qed.
#[export] Hint Rewrite upd_pretry_msg_assembled : upd.
Lemma upd_pretry_msg_done c v : c_pretry_msg (c <| c_done := v |>) = c_pretry_msg c. Proof. reflexivity. Qed.
#[export] Hint Rewrite upd_pretry_msg_done : upd.
Lemma upd_pretry_msg_next_rid c v : c_pretry_msg (c <| c_next_rid := v |>) = c_pretry_msg c. Proof. reflexivity. Qed.
#[export] Hint Rewrite upd_pretry_msg_next_rid : upd.
Lemma upd_pretry_msg_hello_sent c v : c_pretry_msg (c <| c_hello_sent := v |>) = c_pretry_msg c. Proof. reflexivity. Qed.
#[export] Hint Rewrite upd_pretry_msg_hello_sent : upd.
Lemma upd_pretry_msg_conn_cb c v : c_pretry_msg (c <| c_conn_cb := v |>) = c_pretry_msg c. Proof. reflexivity. Qed.
#[export] Hint Rewrite upd_pretry_msg_conn_cb : upd.
Lemma upd_pretry_msg_token c v : c_pretry_msg (c <| c_token := v |>) = c_pretry_msg c. Proof. reflexivity. Qed.
#[export] Hint Rewrite upd_pretry_msg_token : upd.
Lemma upd_pcbs_server c v : c_pcbs (c <| c_server := v |>) = c_pcbs c. Proof. reflexivity. Qed.
#[export] Hint Rewrite upd_pcbs_server : upd.
Lemma upd_pcbs_key c v : c_pcbs (c <| c_key := v |>) = c_pcbs c. Proof. reflexivity. Qed.
#[export] Hint Rewrite upd_pcbs_key : upd.
Lemma upd_pcbs_status c v : c_pcbs (c <| c_status := v |>) = c_pcbs c. Proof. reflexivity. Qed.
#[export] Hint Rewrite upd_pcbs_status : upd.
Lemma upd_pcbs_incoming c v : c_pcbs (c <| c_incoming := v |>) = c_pcbs c. Proof. reflexivity. Qed.
#[export] Hint Rewrite upd_pcbs_incoming : upd.
Lemma upd_pcbs_outgoing c v : c_pcbs (c <| c_outgoing := v |>) = c_pcbs c. Proof. reflexivity. Qed.
#[export] Hint Rewrite upd_pcbs_outgoing : upd.
Lemma upd_pcbs_packs c v : c_pcbs (c <| c_packs := v |>) = c_pcbs c. Proof. reflexivity. Qed.
#[export] Hint Rewrite upd_pcbs_packs : upd.
Lemma upd_pcbs_pcbs c v : c_pcbs (c <| c_pcbs := v |>) = v. Proof. reflexivity. Qed.
#[export] Hint Rewrite upd_pcbs_pcbs : upd.
Lemma upd_pcbs_pretry c v : c_pcbs (c <| c_pretry := v |>) = c_pcbs c. Proof. reflexivity. Qed.
#[export] Hint Rewrite upd_pcbs_pretry : upd.
Lemma upd_pcbs_pretry_msg c v : c_pcbs (c <| c_pretry_msg := v |>) = c_pcbs c. Proof. reflexivity. Qed.
#[export] Hint Rewrite upd_pcbs_pretry_msg : upd.
Lemma upd_pcbs_pfrags c v : c_pcbs (c <| c_pfrags := v |>) = c_pcbs c. Proof. reflexivity. Qed.
#[export] Hint Rewrite upd_pcbs_pfrags : upd.
Lemma upd_pcbs_rfrags c v : c_pcbs (c <| c_rfrags := v |>) = c_pcbs c. Proof. reflexivity. Qed.
#[export] Hint Rewrite upd_pcbs_rfrags : upd.
Lemma upd_pcbs_seq_send c v : c_pcbs (c <| c_seq_send := v |>) = c_pcbs c. Proof. reflexivity. Qed.
#[export] Hint Rewrite upd_pcbs_seq_send : upd.
Lemma upd_pcbs_seq_msg c v : c_pcbs (c <| c_seq_msg := v |>) = c_pcbs c. Proof. reflexivity. Qed.
#[export] Hint Rewrite upd_pcbs_seq_msg : upd.
Lemma upd_pcbs_seq_frag c v : c_pcbs (c <| c_seq_frag := v |>) = c_pcbs c. Proof. reflexivity. Qed.
#[export] Hint Rewrite upd_pcbs_seq_frag : upd.
Lemma upd_pcbs_bf_pkt c v : c_pcbs (c <| c_bf_pkt := v |>) = c_pcbs c. Proof. reflexivity. Qed.
#[export] Hint Rewrite upd_pcbs_bf_pkt : upd.
Lemma upd_pcbs_bf_msg c v : c_pcbs (c <| c_bf_msg := v |>) = c_pcbs c. Proof. reflexivity. Qed.
#[export] Hint Rewrite upd_pcbs_bf_msg : upd.
Lemma upd_pcbs_out_timeout c v : c_pcbs (c <| c_out_timeout := v |>) = c_pcbs c. Proof. reflexivity. Qed.
#[export] Hint Rewrite upd_pcbs_out_timeout : upd.
Lemma upd_pcbs_temp_timeout c v : c_pcbs (c <| c_temp_timeout := v |>) = c_pcbs c. Proof. reflexivity. Qed.
#[export] Hint Rewrite upd_pcbs_temp_timeout : upd.
Lemma upd_pcbs_send_interval c v : c_pcbs (c <| c_send_interval := v |>) = c_pcbs c. Proof. reflexivity. Qed.
#[export] Hint Rewrite upd_pcbs_send_interval : upd.
Lemma upd_pcbs_ka_interval c v : c_pcbs (c <| c_ka_interval := v |>) = c_pcbs c. Proof. reflexivity. Qed.
#[export] Hint Rewrite upd_pcbs_ka_interval : upd.
Lemma upd_pcbs_last_recv c v : c_pcbs (c <| c_last_recv := v |>) = c_pcbs c. Proof. reflexivity. Qed.
#[export] Hint Rewrite upd_pcbs_last_recv : upd.
Lemma upd_pcbs_last_send c v : c_pcbs (c <| c_last_send := v |>) = c_pcbs c. Proof. reflexivity. Qed.
#[export] Hint Rewrite upd_pcbs_last_send : upd.
Lemma upd_pcbs_last_ka c v : c_pcbs (c <| c_last_ka := v |>) = c_pcbs c. Proof. reflexivity. Qed.
#[export] Hint Rewrite upd_pcbs_last_ka : upd.
Lemma upd_pcbs_sent c v : c_pcbs (c <| c_sent := v |>) = c_pcbs c. Proof. reflexivity. Qed.
#[export] Hint Rewrite upd_pcbs_sent : upd.
Lemma upd_pcbs_dropped c v : c_pcbs (c <| c_dropped := v |>) = c_pcbs c. Proof. reflexivity. Qed.
#[export] Hint Rewrite upd_pcbs_dropped : upd.
Lemma upd_pcbs_received c v : c_pcbs (c <| c_received := v |>) = c_pcbs c. Proof. reflexivity. Qed.
#[export] Hint Rewrite upd_pcbs_received : upd.
Lemma upd_pcbs_acked c v : c_pcbs (c <| c_acked := v |>) = c_pcbs c. Proof. reflexivity. Qed.
#[export] Hint Rewrite upd_pcbs_acked : upd.
Lemma upd_pcbs_timeouts c v : c_pcbs (c <| c_timeouts := v |>) = c_pcbs c. Proof. reflexivity. Qed.
#[export] Hint Rewrite upd_pcbs_timeouts : upd.
Lemma upd_pcbs_assembled c v : c_pcbs (c <| c_assembled := v |>) = c_pcbs c. Proof. reflexivity. Qed.
#[export] Hint Rewrite upd_pcbs_assembled : upd.
Lemma upd_pcbs_done c v : c_pcbs (c <| c_done := v |>) = c_pcbs c. Proof. reflexivity. Qed.
#[export] Hint Rewrite upd_pcbs_done : upd.
Lemma upd_pcbs_next_rid c v : c_pcbs (c <| c_next_rid := v |>) = c_pcbs c. Proof. reflexivity. Qed.
#[export] Hint Rewrite upd_pcbs_next_rid : upd.
Lemma upd_pcbs_hello_sent c v : c_pcbs (c <| c_hello_sent := v |>) = c_pcbs c. Proof. reflexivity. Qed.
#[export] Hint Rewrite upd_pcbs_hello_sent : upd.
Lemma upd_pcbs_conn_cb c v : c_pcbs (c <| c_conn_cb := v |>) = c_pcbs c. Proof. reflexivity. Qed.
#[export] Hint Rewrite upd_pcbs_conn_cb : upd.
Lemma upd_pcbs_token c v : c_pcbs (c <| c_token := v |>) = c_pcbs c. Proof. reflexivity. Qed.
#[export] Hint Rewrite upd_pcbs_token : upd.
Lemma upd_seq_msg_server c v : c_seq_msg (c <| c_server := v |>) = c_seq_msg c. Proof. reflexivity. Qed.
#[export] Hint Rewrite upd_seq_msg_server : upd.
Lemma upd_seq_msg_key c v : c_seq_msg (c <| c_key := v |>) = c_seq_msg c. Proof. reflexivity. Qed.
#[export] Hint Rewrite upd_seq_msg_key : upd.
Lemma upd_seq_msg_status c v : c_seq_msg (c <| c_status := v |>) = c_seq_msg c. Proof. reflexivity. Qed.
#[export] Hint Rewrite upd_seq_msg_status : upd.
Lemma upd_seq_msg_incoming c v : c_seq_msg (c <| c_incoming := v |>) = c_seq_msg c. Proof. reflexivity. Qed.
#[export] Hint Rewrite upd_seq_msg_incoming : upd.
Lemma upd_seq_msg_outgoing c v : c_seq_msg (c <| c_outgoing := v |>) = c_seq_msg c. Proof. reflexivity. Qed.
#[export] Hint Rewrite upd_seq_msg_outgoing : upd.
Lemma upd_seq_msg_packs c v : c_seq_msg (c <| c_packs := v |>) = c_seq_msg c. Proof. reflexivity. Qed.
#[export] Hint Rewrite upd_seq_msg_packs : upd.
Lemma upd_seq_msg_pcbs c v : c_seq_msg (c <| c_pcbs := v |>) = c_seq_msg c. Proof. reflexivity. Qed.
#[export] Hint Rewrite upd_seq_msg_pcbs : upd.
Lemma upd_seq_msg_pretry c v : c_seq_msg (c <| c_pretry := v |>) = c_seq_msg c. Proof. reflexivity. Qed.
#[export] Hint Rewrite upd_seq_msg_pretry : upd.
Lemma upd_seq_msg_pretry_msg c v : c_seq_msg (c <| c_pretry_msg := v |>) = c_seq_msg c. Proof. reflexivity. Qed.
#[export] Hint Rewrite upd_seq_msg_pretry_msg : upd.
Lemma upd_seq_msg_pfrags c v : c_seq_msg (c <| c_pfrags := v |>) = c_seq_msg c. Proof. reflexivity. Qed.
#[export] Hint Rewrite upd_seq_msg_pfrags : upd.
Lemma upd_seq_msg_rfrags c v : c_seq_msg (c <| c_rfrags := v |>) = c_seq_msg c. Proof. reflexivity. Qed.
#[export] Hint Rewrite upd_seq_msg_rfrags : upd.
Lemma upd_seq_msg_seq_send c v : c_seq_msg (c <| c_seq_send := v |>) = c_seq_msg c. Proof. reflexivity. Qed.
#[export] Hint Rewrite upd_seq_msg_seq_send : upd.
Lemma upd_seq_msg_seq_msg c v : c_seq_msg (c <| c_seq_msg := v |>) = v. Proof. reflexivity. Qed.
#[export] Hint Rewrite upd_seq_msg_seq_msg : upd.
Lemma upd_seq_msg_seq_frag c v : c_seq_msg (c <| c_seq_frag := v |>) = c_seq_msg c. Proof. reflexivity. Qed.
#[export] Hint Rewrite upd_seq_msg_seq_frag : upd.
Lemma upd_seq_msg_bf_pkt c v : c_seq_msg (c <| c_bf_pkt := v |>) = c_seq_msg c. Proof. reflexivity. Qed.
#[export] Hint Rewrite upd_seq_msg_bf_pkt : upd.
Lemma upd_seq_msg_bf_msg c v : c_seq_msg (c <| c_bf_msg := v |>) = c_seq_msg c. Proof. reflexivity. Qed.
#[export] Hint Rewrite upd_seq_msg_bf_msg : upd.
Lemma upd_seq_msg_out_timeout c v : c_seq_msg (c <| c_out_timeout := v |>) = c_seq_msg c. Proof. reflexivity. Qed.
#[export] Hint Rewrite upd_seq_msg_out_timeout : upd.
Lemma upd_seq_msg_temp_timeout c v : c_seq_msg (c <| c_temp_timeout := v |>) = c_seq_msg c. Proof. reflexivity. Qed.
#[export] Hint Rewrite upd_seq_msg_temp_timeout : upd.
Lemma upd_seq_msg_send_interval c v : c_seq_msg (c <| c_send_interval := v |>) = c_seq_msg c. Proof. reflexivity. Qed.
#[export] Hint Rewrite upd_seq_msg_send_interval : upd.
Lemma upd_seq_msg_ka_interval c v : c_seq_msg (c <| c_ka_interval := v |>) = c_seq_msg c. Proof. reflexivity. Qed.
#[export] Hint Rewrite upd_seq_msg_ka_interval : upd.
Lemma upd_seq_msg_last_recv c v : c_seq_msg (c <| c_last_recv := v |>) = c_seq_msg c. Proof. reflexivity. Qed.
#[export] Hint Rewrite upd_seq_msg_last_recv : upd.
Lemma upd_seq_msg_last_send c v : c_seq_msg (c <| c_last_send := v |>) = c_seq_msg c. Proof. reflexivity. Qed.
#[export] Hint Rewrite upd_seq_msg_last_send : upd.
Lemma upd_seq_msg_last_ka c v : c_seq_msg (c <| c_last_ka := v |>) = c_seq_msg c. Proof. reflexivity. Qed.
#[export] Hint Rewrite upd_seq_msg_last_ka : upd.
Lemma upd_seq_msg_sent c v : c_seq_msg (c <| c_sent := v |>) = c_seq_msg c. Proof. reflexivity. Qed.
#[export] Hint Rewrite upd_seq_msg_sent : upd.
Lemma upd_seq_msg_dropped c v : c_seq_msg (c <| c_dropped := v |>) = c_seq_msg c. Proof. reflexivity. Qed.
#[export] Hint Rewrite upd_seq_msg_dropped : upd.
Lemma upd_seq_msg_received c v : c_seq_msg (c <| c_received := v |>) = c_seq_msg c. Proof. reflexivity. Qed.
#[export] Hint Rewrite upd_seq_msg_received : upd.
Lemma upd_seq_msg_acked c v : c_seq_msg (c <| c_acked := v |>) = c_seq_msg c. Proof. reflexivity. Qed.
#[export] Hint Rewrite upd_seq_msg_acked : upd.
Lemma upd_seq_msg_timeouts c v : c_seq_msg (c <| c_timeouts := v |>) = c_seq_msg c. Proof. reflexivity. Qed.
#[export] Hint Rewrite upd_seq_msg_timeouts : upd.
Lemma upd_seq_msg_assembled c v : c_seq_msg (c <| c_assembled := v |>) = c_seq_msg c. Proof. reflexivity. Qed.
#[export] Hint Rewrite upd_seq_msg_assembled : upd.
Lemma upd_seq_msg_done c v : c_seq_msg (c <| c_done := v |>) = c_seq_msg c. Proof. reflexivity. Qed.
#[export] Hint Rewrite upd_seq_msg_done : upd.
Lemma upd_seq_msg_next_rid c v : c_seq_msg (c <| c_next_rid := v |>) = c_seq_msg c. Proof. reflexivity. Qed.
#[export] Hint Rewrite upd_seq_msg_next_rid : upd.
Lemma upd_seq_msg_hello_sent c v : c_seq_msg (c <| c_hello_sent := v |>) = c_seq_msg c. Proof. reflexivity. Qed.
#[export] Hint Rewrite upd_seq_msg_hello_sent : upd.
Lemma upd_seq_msg_conn_cb c v : c_seq_msg (c <| c_conn_cb := v |>) = c_seq_msg c. Proof. reflexivity. Qed.
#[export] Hint Rewrite upd_seq_msg_conn_cb : upd.
Lemma upd_seq_msg_token c v : c_seq_msg (c <| c_token := v |>) = c_seq_msg c. Proof. reflexivity. Qed.
#[export] Hint Rewrite upd_seq_msg_token : upd.
Lemma upd_key_server c v : c_key (c <| c_server := v |>) = c_key c. Proof. reflexivity. Qed.
#[export] Hint Rewrite upd_key_server : upd.
Lemma upd_key_key c v : c_key (c <| c_key := v |>) = v. Proof. reflexivity. Qed.
#[export] Hint Rewrite upd_key_key : upd.
Lemma upd_key_status c v : c_key (c <| c_status := v |>) = c_key c. Proof. reflexivity. Qed.
#[export] Hint Rewrite upd_key_status : upd.
Lemma upd_key_incoming c v : c_key (c <| c_incoming := v |>) = c_key c. Proof. reflexivity. Qed.
#[export] Hint Rewrite upd_key_incoming : upd.
Lemma upd_key_outgoing c v : c_key (c <| c_outgoing := v |>) = c_key c. Proof. reflexivity. Qed.
#[export] Hint Rewrite upd_key_outgoing : upd.
Lemma upd_key_packs c v : c_key (c <| c_packs := v |>) = c_key c. Proof. reflexivity. Qed.
#[export] Hint Rewrite upd_key_packs : upd.
Lemma upd_key_pcbs c v : c_key (c <| c_pcbs := v |>) = c_key c. Proof. reflexivity. Qed.
#[export] Hint Rewrite upd_key_pcbs : upd.
Lemma upd_key_pretry c v : c_key (c <| c_pretry := v |>) = c_key c. Proof. reflexivity. Qed.
#[export] Hint Rewrite upd_key_pretry : upd.
Lemma upd_key_pretry_msg c v : c_key (c <| c_pretry_msg := v |>) = c_key c. Proof. reflexivity. Qed.
#[export] Hint Rewrite upd_key_pretry_msg : upd.
Lemma upd_key_pfrags c v : c_key (c <| c_pfrags := v |>) = c_key c. Proof. reflexivity. Qed.
#[export] Hint Rewrite upd_key_pfrags : upd.
Lemma upd_key_rfrags c v : c_key (c <| c_rfrags := v |>) = c_key c. Proof. reflexivity. Qed.
#[export] Hint Rewrite upd_key_rfrags : upd.
Lemma upd_key_seq_send c v : c_key (c <| c_seq_send := v |>) = c_key c. Proof. reflexivity. Qed.
#[export] Hint Rewrite upd_key_seq_send : upd.
Lemma upd_key_seq_msg c v : c_key (c <| c_seq_msg := v |>) = c_key c. Proof. reflexivity. Qed.
#[export] Hint Rewrite upd_key_seq_msg : upd.
Lemma upd_key_seq_frag c v : c_key (c <| c_seq_frag := v |>) = c_key c. Proof. reflexivity. Qed.
#[export] Hint Rewrite upd_key_seq_frag : upd.
Lemma upd_key_bf_pkt c v : c_key (c <| c_bf_pkt := v |>) = c_key c. Proof. reflexivity. Qed.
#[export] Hint Rewrite upd_key_bf_pkt : upd.
Lemma upd_key_bf_msg c v : c_key (c <| c_bf_msg := v |>) = c_key c. Proof. reflexivity. Qed.
#[export] Hint Rewrite upd_key_bf_msg : upd.
Lemma upd_key_out_timeout c v : c_key (c <| c_out_timeout := v |>) = c_key c. Proof. reflexivity. Qed.
#[export] Hint Rewrite upd_key_out_timeout : upd.
Lemma upd_key_temp_timeout c v : c_key (c <| c_temp_timeout := v |>) = c_key c. Proof. reflexivity. Qed.
#[export] Hint Rewrite upd_key_temp_timeout : upd.
Lemma upd_key_send_interval c v : c_key (c <| c_send_interval := v |>) = c_key c. Proof. reflexivity. Qed.
#[export] Hint Rewrite upd_key_send_interval : upd.
Lemma upd_key_ka_interval c v : c_key (c <| c_ka_interval := v |>) = c_key c. Proof. reflexivity. Qed.
#[export] Hint Rewrite upd_key_ka_interval : upd.
Lemma upd_key_last_recv c v : c_key (c <| c_last_recv := v |>) = c_key c. Proof. reflexivity. Qed.
#[export] Hint Rewrite upd_key_last_recv : upd.
Lemma upd_key_last_send c v : c_key (c <| c_last_send := v |>) = c_key c. Proof. reflexivity. Qed.
#[export] Hint Rewrite upd_key_last_send : upd.
Lemma upd_key_last_ka c v : c_key (c <| c_last_ka := v |>) = c_key c. Proof. reflexivity. Qed.
#[export] Hint Rewrite upd_key_last_ka : upd.
Lemma upd_key_sent c v : c_key (c <| c_sent := v |>) = c_key c. Proof. reflexivity. Qed.
#[export] Hint Rewrite upd_key_sent : upd.
Lemma upd_key_dropped c v : c_key (c <| c_dropped := v |>) = c_key c. Proof. reflexivity. Qed.
#[export] Hint Rewrite upd_key_dropped : upd.
Lemma upd_key_received c v : c_key (c <| c_received := v |>) = c_key c. Proof. reflexivity. Qed.
#[export] Hint Rewrite upd_key_received : upd.
Lemma upd_key_acked c v : c_key (c <| c_acked := v |>) = c_key c. Proof. reflexivity. Qed.
#[export] Hint Rewrite upd_key_acked : upd.
Lemma upd_key_timeouts c v : c_key (c <| c_timeouts := v |>) = c_key c. Proof. reflexivity. Qed.
#[export] Hint Rewrite upd_key_timeouts : upd.
Lemma upd_key_assembled c v : c_key (c <| c_assembled := v |>) = c_key c. Proof. reflexivity. Qed.
#[export] Hint Rewrite upd_key_assembled : upd.
Lemma upd_key_done c v : c_key (c <| c_done := v |>) = c_key c. Proof. reflexivity. Qed.
#[export] Hint Rewrite upd_key_done : upd.
Lemma upd_key_next_rid c v : c_key (c <| c_next_rid := v |>) = c_key c. Proof. reflexivity. Qed.
#[export] Hint Rewrite upd_key_next_rid : upd.
Lemma upd_key_hello_sent c v : c_key (c <| c_hello_sent := v |>) = c_key c. Proof. reflexivity. Qed.
#[export] Hint Rewrite upd_key_hello_sent : upd.
Lemma upd_key_conn_cb c v : c_key (c <| c_conn_cb := v |>) = c_key c. Proof. reflexivity. Qed.
#[export] Hint Rewrite upd_key_conn_cb : upd.
Lemma upd_key_token c v : c_key (c <| c_token := v |>) = c_key c. Proof. reflexivity. Qed.
#[export] Hint Rewrite upd_key_token : upd.
Lemma upd_rfrags_server c v : c_rfrags (c <| c_server := v |>) = c_rfrags c. Proof. reflexivity. Qed.
#[export] Hint Rewrite upd_rfrags_server : upd.
Lemma upd_rfrags_key c v : c_rfrags (c <| c_key := v |>) = c_rfrags c. Proof. reflexivity. Qed.
#[export] Hint Rewrite upd_rfrags_key : upd.
Lemma upd_rfrags_status c v : c_rfrags (c <| c_status := v |>) = c_rfrags c. Proof. reflexivity. Qed.
#[export] Hint Rewrite upd_rfrags_status : upd.
Lemma upd_rfrags_incoming c v : c_rfrags (c <| c_incoming := v |>) = c_rfrags c. Proof. reflexivity. Qed.
#[export] Hint Rewrite upd_rfrags_incoming : upd.
Lemma upd_rfrags_outgoing c v : c_rfrags (c <| c_outgoing := v |>) = c_rfrags c. Proof. reflexivity. Qed.
#[export] Hint Rewrite upd_rfrags_outgoing : upd.
Lemma upd_rfrags_packs c v : c_rfrags (c <| c_packs := v |>) = c_rfrags c. Proof. reflexivity. Qed.
#[export] Hint Rewrite upd_rfrags_packs : upd.
Lemma upd_rfrags_pcbs c v : c_rfrags (c <| c_pcbs := v |>) = c_rfrags c. Proof. reflexivity. Qed.
#[export] Hint Rewrite upd_rfrags_pcbs : upd.
Lemma upd_rfrags_pretry c v : c_rfrags (c <| c_pretry := v |>) = c_rfrags c. Proof. reflexivity. Qed.
#[export] Hint Rewrite upd_rfrags_pretry : upd.
Lemma upd_rfrags_pretry_msg c v : c_rfrags (c <| c_pretry_msg := v |>) = c_rfrags c. Proof. reflexivity. Qed.
#[export] Hint Rewrite upd_rfrags_pretry_msg : upd.
Lemma upd_rfrags_pfrags c v : c_rfrags (c <| c_pfrags := v |>) = c_rfrags c. Proof. reflexivity. Qed.
#[export] Hint Rewrite upd_rfrags_pfrags : upd.
Lemma upd_rfrags_rfrags c v : c_rfrags (c <| c_rfrags := v |>) = v. Proof. reflexivity. Qed.
#[export] Hint Rewrite upd_rfrags_rfrags : upd.
Lemma upd_rfrags_seq_send c v : c_rfrags (c <| c_seq_send := v |>) = c_rfrags c. Proof. reflexivity. Qed.
#[export] Hint Rewrite upd_rfrags_seq_send : upd.
Lemma upd_rfrags_seq_msg c v : c_rfrags (c <| c_seq_msg := v |>) = c_rfrags c. Proof. reflexivity. Qed.
#[export] Hint Rewrite upd_rfrags_seq_msg : upd.
Lemma upd_rfrags_seq_frag c v : c_rfrags (c <| c_seq_frag := v |>) = c_rfrags c. Proof. reflexivity. Qed.
#[export] Hint Rewrite upd_rfrags_seq_frag : upd.
Lemma upd_rfrags_bf_pkt c v : c_rfrags (c <| c_bf_pkt := v |>) = c_rfrags c. Proof. reflexivity. Qed.
#[export] Hint Rewrite upd_rfrags_bf_pkt : upd.
Lemma upd_rfrags_bf_msg c v : c_rfrags (c <| c_bf_msg := v |>) = c_rfrags c. Proof. reflexivity. Qed.
#[export] Hint Rewrite upd_rfrags_bf_msg : upd.
Lemma upd_rfrags_out_timeout c v : c_rfrags (c <| c_out_timeout := v |>) = c_rfrags c. Proof. reflexivity. Qed.
#[export] Hint Rewrite upd_rfrags_out_timeout : upd.
Lemma upd_rfrags_temp_timeout c v : c_rfrags (c <| c_temp_timeout := v |>) = c_rfrags c. Proof. reflexivity. Qed.
#[export] Hint Rewrite upd_rfrags_temp_timeout : upd.
Lemma upd_rfrags_send_interval c v : c_rfrags (c <| c_send_interval := v |>) = c_rfrags c. Proof. reflexivity. Qed.
#[export] Hint Rewrite upd_rfrags_send_interval : upd.
Lemma upd_rfrags_ka_interval c v : c_rfrags (c <| c_ka_interval := v |>) = c_rfrags c. Proof. reflexivity. Qed.
#[export] Hint Rewrite upd_rfrags_ka_interval : upd.
Lemma upd_rfrags_last_recv c v : c_rfrags (c <| c_last_recv := v |>) = c_rfrags c. Proof. reflexivity. Qed.
#[export] Hint Rewrite upd_rfrags_last_recv : upd.
Lemma upd_rfrags_last_send c v : c_rfrags (c <| c_last_send := v |>) = c_rfrags c. Proof. reflexivity. Qed.
#[export] Hint Rewrite upd_rfrags_last_send : upd.
Lemma upd_rfrags_last_ka c v : c_rfrags (c <| c_last_ka := v |>) = c_rfrags c. Proof. reflexivity. Qed.
#[export] Hint Rewrite upd_rfrags_last_ka : upd.
Lemma upd_rfrags_sent c v : c_rfrags (c <| c_sent := v |>) = c_rfrags c. Proof. reflexivity. Qed.
#[export] Hint Rewrite upd_rfrags_sent : upd.
Lemma upd_rfrags_dropped c v : c_rfrags (c <| c_dropped := v |>) = c_rfrags c. Proof. reflexivity. Qed.
#[export] Hint Rewrite upd_rfrags_dropped : upd.
Lemma upd_rfrags_received c v : c_rfrags (c <| c_received := v |>) = c_rfrags c. Proof. reflexivity. Qed.
#[export] Hint Rewrite upd_rfrags_received : upd.
Lemma upd_rfrags_acked c v : c_rfrags (c <| c_acked := v |>) = c_rfrags c. Proof. reflexivity. Qed.
#[export] Hint Rewrite upd_rfrags_acked : upd.
Lemma upd_rfrags_timeouts c v : c_rfrags (c <| c_timeouts := v |>) = c_rfrags c. Proof. reflexivity. Qed.
#[export] Hint Rewrite upd_rfrags_timeouts : upd.
Lemma upd_rfrags_assembled c v : c_rfrags (c <| c_assembled := v |>) = c_rfrags c. Proof. reflexivity. Qed.
#[export] Hint Rewrite upd_rfrags_assembled : upd.
Lemma upd_rfrags_done c v : c_rfrags (c <| c_done := v |>) = c_rfrags c. Proof. reflexivity. Qed.
#[export] Hint Rewrite upd_rfrags_done : upd.
Lemma upd_rfrags_next_rid c v : c_rfrags (c <| c_next_rid := v |>) = c_rfrags c. Proof. reflexivity. Qed.
#[export] Hint Rewrite upd_rfrags_next_rid : upd.
Lemma upd_rfrags_hello_sent c v : c_rfrags (c <| c_hello_sent := v |>) = c_rfrags c. Proof. reflexivity. Qed.
#[export] Hint Rewrite upd_rfrags_hello_sent : upd.
Lemma upd_rfrags_conn_cb c v : c_rfrags (c <| c_conn_cb := v |>) = c_rfrags c. Proof. reflexivity. Qed.
#[export] Hint Rewrite upd_rfrags_conn_cb : upd.
Lemma upd_rfrags_token c v : c_rfrags (c <| c_token := v |>) = c_rfrags c. Proof. reflexivity. Qed.
#[export] Hint Rewrite upd_rfrags_token : upd.
Lemma upd_incoming_server c v : c_incoming (c <| c_server := v |>) = c_incoming c. Proof. reflexivity. Qed.
#[export] Hint Rewrite upd_incoming_server : upd.
Lemma upd_incoming_key c v : c_incoming (c <| c_key := v |>) = c_incoming c. Proof. reflexivity. Qed.
#[export] Hint Rewrite upd_incoming_key : upd.
Lemma upd_incoming_status c v : c_incoming (c <| c_status := v |>) = c_incoming c. Proof. reflexivity. Qed.
#[export] Hint Rewrite upd_incoming_status : upd.
Lemma upd_incoming_incoming c v : c_incoming (c <| c_incoming := v |>) = v. Proof. reflexivity. Qed.
#[export] Hint Rewrite upd_incoming_incoming : upd.
Lemma upd_incoming_outgoing c v : c_incoming (c <| c_outgoing := v |>) = c_incoming c. Proof. reflexivity. Qed.
#[export] Hint Rewrite upd_incoming_outgoing : upd.
Lemma upd_incoming_packs c v : c_incoming (c <| c_packs := v |>) = c_incoming c. Proof. reflexivity. Qed.
#[export] Hint Rewrite upd_incoming_packs : upd.
Lemma upd_incoming_pcbs c v : c_incoming (c <| c_pcbs := v |>) = c_incoming c. Proof. reflexivity. Qed.
#[export] Hint Rewrite upd_incoming_pcbs : upd.
Lemma upd_incoming_pretry c v : c_incoming (c <| c_pretry := v |>) = c_incoming c. Proof. reflexivity. Qed.
#[export] Hint Rewrite upd_incoming_pretry : upd.
Lemma upd_incoming_pretry_msg c v : c_incoming (c <| c_pretry_msg := v |>) = c_incoming c. Proof. reflexivity. Qed.
#[export] Hint Rewrite upd_incoming_pretry_msg : upd.
Lemma upd_incoming_pfrags c v : c_incoming (c <| c_pfrags := v |>) = c_incoming c. Proof. reflexivity. Qed.
#[export] Hint Rewrite upd_incoming_pfrags : upd.
Lemma upd_incoming_rfrags c v : c_incoming (c <| c_rfrags := v |>) = c_incoming c. Proof. reflexivity. Qed.
#[export] Hint Rewrite upd_incoming_rfrags : upd.
Lemma upd_incoming_seq_send c v : c_incoming (c <| c_seq_send := v |>) = c_incoming c. Proof. reflexivity. Qed.
#[export] Hint Rewrite upd_incoming_seq_send : upd.
Lemma upd_incoming_seq_msg c v : c_incoming (c <| c_seq_msg := v |>) = c_incoming c. Proof. reflexivity. Qed.
#[export] Hint Rewrite upd_incoming_seq_msg : upd.
Lemma upd_incoming_seq_frag c v : c_incoming (c <| c_seq_frag := v |>) = c_incoming c. Proof. reflexivity. Qed.
#[export] Hint Rewrite upd_incoming_seq_frag : upd.
Lemma upd_incoming_bf_pkt c v : c_incoming (c <| c_bf_pkt := v |>) = c_incoming c. Proof. reflexivity. Qed.
#[export] Hint Rewrite upd_incoming_bf_pkt : upd.
Lemma upd_incoming_bf_msg c v : c_incoming (c <| c_bf_msg := v |>) = c_incoming c. Proof. reflexivity. Qed.
#[export] Hint Rewrite upd_incoming_bf_msg : upd.
Lemma upd_incoming_out_timeout c v : c_incoming (c <| c_out_timeout := v |>) = c_incoming c. Proof. reflexivity. Qed.
#[export] Hint Rewrite upd_incoming_out_timeout : upd.
Lemma upd_incoming_temp_timeout c v : c_incoming (c <| c_temp_timeout := v |>) = c_incoming c. Proof. reflexivity. Qed.
#[export] Hint Rewrite upd_incoming_temp_timeout : upd.
Lemma upd_incoming_send_interval c v : c_incoming (c <| c_send_interval := v |>) = c_incoming c. Proof. reflexivity. Qed.
#[export] Hint Rewrite upd_incoming_send_interval : upd.
Lemma upd_incoming_ka_interval c v : c_incoming (c <| c_ka_interval := v |>) = c_incoming c. Proof. reflexivity. Qed.
#[export] Hint Rewrite upd_incoming_ka_interval : upd.
Lemma upd_incoming_last_recv c v : c_incoming (c <| c_last_recv := v |>) = c_incoming c. Proof. reflexivity. Qed.
#[export] Hint Rewrite upd_incoming_last_recv : upd.
Lemma upd_incoming_last_send c v : c_incoming (c <| c_last_send := v |>) = c_incoming c. Proof. reflexivity. Qed.
#[export] Hint Rewrite upd_incoming_last_send : upd.
Lemma upd_incoming_last_ka c v : c_incoming (c <| c_last_ka := v |>) = c_incoming c. Proof. reflexivity. Qed.
#[export] Hint Rewrite upd_incoming_last_ka : upd.
Lemma upd_incoming_sent c v : c_incoming (c <| c_sent := v |>) = c_incoming c. Proof. reflexivity. Qed.
#[export] Hint Rewrite upd_incoming_sent : upd.
Lemma upd_incoming_dropped c v : c_incoming (c <| c_dropped := v |>) = c_incoming c. Proof. reflexivity. Qed.
#[export] Hint Rewrite upd_incoming_dropped : upd.
Lemma upd_incoming_received c v : c_incoming (c <| c_received := v |>) = c_incoming c. Proof. reflexivity. Qed.
#[export] Hint Rewrite upd_incoming_received : upd.
Lemma upd_incoming_acked c v : c_incoming (c <| c_acked := v |>) = c_incoming c. Proof. reflexivity. Qed.
#[export] Hint Rewrite upd_incoming_acked : upd.
Lemma upd_incoming_timeouts c v : c_incoming (c <| c_timeouts := v |>) = c_incoming c. Proof. reflexivity. Qed.
#[export] Hint Rewrite upd_incoming_timeouts : upd.
Lemma upd_incoming_assembled c v : c_incoming (c <| c_assembled := v |>) = c_incoming c. Proof. reflexivity. Qed.
#[export] Hint Rewrite upd_incoming_assembled : upd.
Lemma upd_incoming_done c v : c_incoming (c <| c_done := v |>) = c_incoming c. Proof. reflexivity. Qed.
#[export] Hint Rewrite upd_incoming_done : upd.
Lemma upd_incoming_next_rid c v : c_incoming (c <| c_next_rid := v |>) = c_incoming c. Proof. reflexivity. Qed.
#[export] Hint Rewrite upd_incoming_next_rid : upd.
Lemma upd_incoming_hello_sent c v : c_incoming (c <| c_hello_sent := v |>) = c_incoming c. Proof. reflexivity. Qed.
#[export] Hint Rewrite upd_incoming_hello_sent : upd.
Lemma upd_incoming_conn_cb c v : c_incoming (c <| c_conn_cb := v |>) = c_incoming c. Proof. reflexivity. Qed.
#[export] Hint Rewrite upd_incoming_conn_cb : upd.
Lemma upd_incoming_token c v : c_incoming (c <| c_token := v |>) = c_incoming c. Proof. reflexivity. Qed.
#[export] Hint Rewrite upd_incoming_token : upd.
Lemma upd_pfrags_server c v : c_pfrags (c <| c_server := v |>) = c_pfrags c. Proof. reflexivity. Qed.
#[export] Hint Rewrite upd_pfrags_server : upd.
Lemma upd_pfrags_key c v : c_pfrags (c <| c_key := v |>) = c_pfrags c. Proof. reflexivity. Qed.
#[export] Hint Rewrite upd_pfrags_key : upd.
Lemma upd_pfrags_status c v : c_pfrags (c <| c_status := v |>) = c_pfrags c. Proof. reflexivity. Qed.
#[export] Hint Rewrite upd_pfrags_status : upd.
Lemma upd_pfrags_incoming c v : c_pfrags (c <| c_incoming := v |>) = c_pfrags c. Proof. reflexivity. Qed.
#[export] Hint Rewrite upd_pfrags_incoming : upd.
Lemma upd_pfrags_outgoing c v : c_pfrags (c <| c_outgoing := v |>) = c_pfrags c. Proof. reflexivity. Qed.
#[export] Hint Rewrite upd_pfrags_outgoing : upd.
Lemma upd_pfrags_packs c v : c_pfrags (c <| c_packs := v |>) = c_pfrags c. Proof. reflexivity. Qed.
#[export] Hint Rewrite upd_pfrags_packs : upd.
Lemma upd_pfrags_pcbs c v : c_pfrags (c <| c_pcbs := v |>) = c_pfrags c. Proof. reflexivity. Qed.
#[export] Hint Rewrite upd_pfrags_pcbs : upd.
Lemma upd_pfrags_pretry c v : c_pfrags (c <| c_pretry := v |>) = c_pfrags c. Proof. reflexivity. Qed.
#[export] Hint Rewrite upd_pfrags_pretry : upd.
Lemma upd_pfrags_pretry_msg c v : c_pfrags (c <| c_pretry_msg := v |>) = c_pfrags c. Proof. reflexivity. Qed.
#[export] Hint Rewrite upd_pfrags_pretry_msg : upd.
Lemma upd_pfrags_pfrags c v : c_pfrags (c <| c_pfrags := v |>) = v. Proof. reflexivity. Qed.
#[export] Hint Rewrite upd_pfrags_pfrags : upd.
Lemma upd_pfrags_rfrags c v : c_pfrags (c <| c_rfrags := v |>) = c_pfrags c. Proof. reflexivity. Qed.
#[export] Hint Rewrite upd_pfrags_rfrags : upd.
Lemma upd_pfrags_seq_send c v : c_pfrags (c <| c_seq_send := v |>) = c_pfrags c. Proof. reflexivity. Qed.
#[export] Hint Rewrite upd_pfrags_seq_send : upd.
Lemma upd_pfrags_seq_msg c v : c_pfrags (c <| c_seq_msg := v |>) = c_pfrags c. Proof. reflexivity. Qed.
#[export] Hint Rewrite upd_pfrags_seq_msg : upd.
Lemma upd_pfrags_seq_frag c v : c_pfrags (c <| c_seq_frag := v |>) = c_pfrags c. Proof. reflexivity. Qed.
#[export] Hint Rewrite upd_pfrags_seq_frag : upd.
Lemma upd_pfrags_bf_pkt c v : c_pfrags (c <| c_bf_pkt := v |>) = c_pfrags c. Proof. reflexivity. Qed.
#[export] Hint Rewrite upd_pfrags_bf_pkt : upd.
Lemma upd_pfrags_bf_msg c v : c_pfrags (c <| c_bf_msg := v |>) = c_pfrags c. Proof. reflexivity. Qed.
#[export] Hint Rewrite upd_pfrags_bf_msg : upd.
Lemma upd_pfrags_out_timeout c v : c_pfrags (c <| c_out_timeout := v |>) = c_pfrags c. Proof. reflexivity. Qed.
#[export] Hint Rewrite upd_pfrags_out_timeout : upd.
Lemma upd_pfrags_temp_timeout c v : c_pfrags (c <| c_temp_timeout := v |>) = c_pfrags c. Proof. reflexivity. Qed.
#[export] Hint Rewrite upd_pfrags_temp_timeout : upd.
Lemma upd_pfrags_send_interval c v : c_pfrags (c <| c_send_interval := v |>) = c_pfrags c. Proof. reflexivity. Qed.
#[export] Hint Rewrite upd_pfrags_send_interval : upd.
Lemma upd_pfrags_ka_interval c v : c_pfrags (c <| c_ka_interval := v |>) = c_pfrags c. Proof. reflexivity. Qed.
#[export] Hint Rewrite upd_pfrags_ka_interval : upd.
Lemma upd_pfrags_last_recv c v : c_pfrags (c <| c_last_recv := v |>) = c_pfrags c. Proof. reflexivity. Qed.
#[export] Hint Rewrite upd_pfrags_last_recv : upd.
Lemma upd_pfrags_last_send c v : c_pfrags (c <| c_last_send := v |>) = c_pfrags c. Proof. reflexivity. Qed.
#[export] Hint Rewrite upd_pfrags_last_send : upd.
Lemma upd_pfrags_last_ka c v : c_pfrags (c <| c_last_ka := v |>) = c_pfrags c. Proof. reflexivity. Qed.
#[export] Hint Rewrite upd_pfrags_last_ka : upd.
Lemma upd_pfrags_sent c v : c_pfrags (c <| c_sent := v |>) = c_pfrags c. Proof. reflexivity. Qed.
#[export] Hint Rewrite upd_pfrags_sent : upd.
Lemma upd_pfrags_dropped c v : c_pfrags (c <| c_dropped := v |>) = c_pfrags c. Proof. reflexivity. Qed.
#[export] Hint Rewrite upd_pfrags_dropped : upd.
Lemma upd_pfrags_received c v : c_pfrags (c <| c_received := v |>) = c_pfrags c. Proof. reflexivity. Qed.
#[export] Hint Rewrite upd_pfrags_received : upd.
Lemma upd_pfrags_acked c v : c_pfrags (c <| c_acked := v |>) = c_pfrags c. Proof. reflexivity. Qed.
#[export] Hint Rewrite upd_pfrags_acked : upd.
Lemma upd_pfrags_timeouts c v : c_pfrags (c <| c_timeouts := v |>) = c_pfrags c. Proof. reflexivity. Qed.
#[export] Hint Rewrite upd_pfrags_timeouts : upd.
Lemma upd_pfrags_assembled c v : c_pfrags (c <| c_assembled := v |>) = c_pfrags c. Proof. reflexivity. Qed.
#[export] Hint Rewrite upd_pfrags_assembled : upd.
Lemma upd_pfrags_done c v : c_pfrags (c <| c_done := v |>) = c_pfrags c. Proof. reflexivity. Qed.
#[export] Hint Rewrite upd_pfrags_done : upd.
Lemma upd_pfrags_next_rid c v : c_pfrags (c <| c_next_rid := v |>) = c_pfrags c. Proof. reflexivity. Qed.
#[export] Hint Rewrite upd_pfrags_next_rid : upd.
Lemma upd_pfrags_hello_sent c v : c_pfrags (c <| c_hello_sent := v |>) = c_pfrags c. Proof. reflexivity. Qed.
#[export] Hint Rewrite upd_pfrags_hello_sent : upd.
Lemma upd_pfrags_conn_cb c v : c_pfrags (c <| c_conn_cb := v |>) = c_pfrags c. Proof. reflexivity. Qed.
#[export] Hint Rewrite upd_pfrags_conn_cb : upd.
Lemma upd_pfrags_token c v : c_pfrags (c <| c_token := v |>) = c_pfrags c. Proof. reflexivity. Qed.
#[export] Hint Rewrite upd_pfrags_token : upd.
Lemma upd_seq_frag_server c v : c_seq_frag (c <| c_server := v |>) = c_seq_frag c. Proof. reflexivity. Qed.
#[export] Hint Rewrite upd_seq_frag_server : upd.
Lemma upd_seq_frag_key c v : c_seq_frag (c <| c_key := v |>) = c_seq_frag c. Proof. reflexivity. Qed.
#[export] Hint Rewrite upd_seq_frag_key : upd.
Lemma upd_seq_frag_status c v : c_seq_frag (c <| c_status := v |>) = c_seq_frag c. Proof. reflexivity. Qed.
#[export] Hint Rewrite upd_seq_frag_status : upd.
Lemma upd_seq_frag_incoming c v : c_seq_frag (c <| c_incoming := v |>) = c_seq_frag c. Proof. reflexivity. Qed.
#[export] Hint Rewrite upd_seq_frag_incoming : upd.
Lemma upd_seq_frag_outgoing c v : c_seq_frag (c <| c_outgoing := v |>) = c_seq_frag c. Proof. reflexivity. Qed.
#[export] Hint Rewrite upd_seq_frag_outgoing : upd.
Lemma upd_seq_frag_packs c v : c_seq_frag (c <| c_packs := v |>) = c_seq_frag c. Proof. reflexivity. Qed.
#[export] Hint Rewrite upd_seq_frag_packs : upd.
Lemma upd_seq_frag_pcbs c v : c_seq_frag (c <| c_pcbs := v |>) = c_seq_frag c. Proof. reflexivity. Qed.
#[export] Hint Rewrite upd_seq_frag_pcbs : upd.
Lemma upd_seq_frag_pretry c v : c_seq_frag (c <| c_pretry := v |>) = c_seq_frag c. Proof. reflexivity. Qed.
#[export] Hint Rewrite upd_seq_frag_pretry : upd.
Lemma upd_seq_frag_pretry_msg c v : c_seq_frag (c <| c_pretry_msg := v |>) = c_seq_frag c. Proof. reflexivity. Qed.
#[export] Hint Rewrite upd_seq_frag_pretry_msg : upd.
Lemma upd_seq_frag_pfrags c v : c_seq_frag (c <| c_pfrags := v |>) = c_seq_frag c. Proof. reflexivity. Qed.
#[export] Hint Rewrite upd_seq_frag_pfrags : upd.
Lemma upd_seq_frag_rfrags c v : c_seq_frag (c <| c_rfrags := v |>) = c_seq_frag c. Proof. reflexivity. Qed.
#[export] Hint Rewrite upd_seq_frag_rfrags : upd.
Lemma upd_seq_frag_seq_send c v : c_seq_frag (c <| c_seq_send := v |>) = c_seq_frag c. Proof. reflexivity. Qed.
#[export] Hint Rewrite upd_seq_frag_seq_send : upd.
Lemma upd_seq_frag_seq_msg c v : c_seq_frag (c <| c_seq_msg := v |>) = c_seq_frag c. Proof. reflexivity. Qed.
#[export] Hint Rewrite upd_seq_frag_seq_msg : upd.
Lemma upd_seq_frag_seq_frag c v : c_seq_frag (c <| c_seq_frag := v |>) = v. Proof. reflexivity. Qed.
#[export] Hint Rewrite upd_seq_frag_seq_frag : upd.
Lemma upd_seq_frag_bf_pkt c v : c_seq_frag (c <| c_bf_pkt := v |>) = c_seq_frag c. Proof. reflexivity. Qed.
#[export] Hint Rewrite upd_seq_frag_bf_pkt : upd.
Lemma upd_seq_frag_bf_msg c v : c_seq_frag (c <| c_bf_msg := v |>) = c_seq_frag c. Proof. reflexivity. Qed.
#[export] Hint Rewrite upd_seq_frag_bf_msg : upd.
Lemma upd_seq_frag_out_timeout c v : c_seq_frag (c <| c_out_timeout := v |>) = c_seq_frag c. Proof. reflexivity. Qed.
#[export] Hint Rewrite upd_seq_frag_out_timeout : upd.
Lemma upd_seq_frag_temp_timeout c v : c_seq_frag (c <| c_temp_timeout := v |>) = c_seq_frag c. Proof. reflexivity. Qed.
#[export] Hint Rewrite upd_seq_frag_temp_timeout : upd.
Lemma upd_seq_frag_send_interval c v : c_seq_frag (c <| c_send_interval := v |>) = c_seq_frag c. Proof. reflexivity. Qed.
#[export] Hint Rewrite upd_seq_frag_send_interval : upd.
Lemma upd_seq_frag_ka_interval c v : c_seq_frag (c <| c_ka_interval := v |>) = c_seq_frag c. Proof. reflexivity. Qed.
#[export] Hint Rewrite upd_seq_frag_ka_interval : upd.
Lemma upd_seq_frag_last_recv c v : c_seq_frag (c <| c_last_recv := v |>) = c_seq_frag c. Proof. reflexivity. Qed.
#[export] Hint Rewrite upd_seq_frag_last_recv : upd.
Lemma upd_seq_frag_last_send c v : c_seq_frag (c <| c_last_send := v |>) = c_seq_frag c. Proof. reflexivity. Qed.
#[export] Hint Rewrite upd_seq_frag_last_send : upd.
Lemma upd_seq_frag_last_ka c v : c_seq_frag (c <| c_last_ka := v |>) = c_seq_frag c. Proof. reflexivity. Qed.
#[export] Hint Rewrite upd_seq_frag_last_ka : upd.
Lemma upd_seq_frag_sent c v : c_seq_frag (c <| c_sent := v |>) = c_seq_frag c. Proof. reflexivity. Qed.
#[export] Hint Rewrite upd_seq_frag_sent : upd.
Lemma upd_seq_frag_dropped c v : c_seq_frag (c <| c_dropped := v |>) = c_seq_frag c. Proof. reflexivity. Qed.
#[export] Hint Rewrite upd_seq_frag_dropped : upd.
Lemma upd_seq_frag_received c v : c_seq_frag (c <| c_received := v |>) = c_seq_frag c. Proof. reflexivity. Qed.
#[export] Hint Rewrite upd_seq_frag_received : upd.
Lemma upd_seq_frag_acked c v : c_seq_frag (c <| c_acked := v |>) = c_seq_frag c. Proof. reflexivity. Qed.
#[export] Hint Rewrite upd_seq_frag_acked : upd.
Lemma upd_seq_frag_timeouts c v : c_seq_frag (c <| c_timeouts := v |>) = c_seq_frag c. Proof. reflexivity. Qed.
#[export] Hint Rewrite upd_seq_frag_timeouts : upd.
Lemma upd_seq_frag_assembled c v : c_seq_frag (c <| c_assembled := v |>) = c_seq_frag c. Proof. reflexivity. Qed.
#[export] Hint Rewrite upd_seq_frag_assembled : upd.
Lemma upd_seq_frag_done c v : c_seq_frag (c <| c_done := v |>) = c_seq_frag c. Proof. reflexivity. Qed.
#[export] Hint Rewrite upd_seq_frag_done : upd.
Lemma upd_seq_frag_next_rid c v : c_seq_frag (c <| c_next_rid := v |>) = c_seq_frag c. Proof. reflexivity. Qed.
#[export] Hint Rewrite upd_seq_frag_next_rid : upd.
Lemma upd_seq_frag_hello_sent c v : c_seq_frag (c <| c_hello_sent := v |>) = c_seq_frag c. Proof. reflexivity. Qed.
#[export] Hint Rewrite upd_seq_frag_hello_sent : upd.
Lemma upd_seq_frag_conn_cb c v : c_seq_frag (c <| c_conn_cb := v |>) = c_seq_frag c. Proof. reflexivity. Qed.
#[export] Hint Rewrite upd_seq_frag_conn_cb : upd.
Lemma upd_seq_frag_token c v : c_seq_frag (c <| c_token := v |>) = c_seq_frag c. Proof. reflexivity. Qed.
#[export] Hint Rewrite upd_seq_frag_token : upd.
Lemma upd_status_server c v : c_status (c <| c_server := v |>) = c_status c. Proof. reflexivity. Qed.
#[export] Hint Rewrite upd_status_server : upd.
Lemma upd_status_key c v : c_status (c <| c_key := v |>) = c_status c. Proof. reflexivity. Qed.
#[export] Hint Rewrite upd_status_key : upd.
Lemma upd_status_status c v : c_status (c <| c_status := v |>) = v. Proof. reflexivity. Qed.
#[export] Hint Rewrite upd_status_status : upd.
Lemma upd_status_incoming c v : c_status (c <| c_incoming := v |>) = c_status c. Proof. reflexivity. Qed.
#[export] Hint Rewrite upd_status_incoming : upd.
Lemma upd_status_outgoing c v : c_status (c <| c_outgoing := v |>) = c_status c. Proof. reflexivity. Qed.
#[export] Hint Rewrite upd_status_outgoing : upd.
Lemma upd_status_packs c v : c_status (c <| c_packs := v |>) = c_status c. Proof. reflexivity. Qed.
#[export] Hint Rewrite upd_status_packs : upd.
Lemma upd_status_pcbs c v : c_status (c <| c_pcbs := v |>) = c_status c. Proof. reflexivity. Qed.
#[export] Hint Rewrite upd_status_pcbs : upd.
Lemma upd_status_pretry c v : c_status (c <| c_pretry := v |>) = c_status c. Proof. reflexivity. Qed.
#[export] Hint Rewrite upd_status_pretry : upd.
Lemma upd_status_pretry_msg c v : c_status (c <| c_pretry_msg := v |>) = c_status c. Proof. reflexivity. Qed.
#[export] Hint Rewrite upd_status_pretry_msg : upd.
Lemma upd_status_pfrags c v : c_status (c <| c_pfrags := v |>) = c_status c. Proof. reflexivity. Qed.
#[export] Hint Rewrite upd_status_pfrags : upd.
Lemma upd_status_rfrags c v : c_status (c <| c_rfrags := v |>) = c_status c. Proof. reflexivity. Qed.
#[export] Hint Rewrite upd_status_rfrags : upd.
Lemma upd_status_seq_send c v : c_status (c <| c_seq_send := v |>) = c_status c. Proof. reflexivity. Qed.
#[export] Hint Rewrite upd_status_seq_send : upd.
Lemma upd_status_seq_msg c v : c_status (c <| c_seq_msg := v |>) = c_status c. Proof. reflexivity. Qed.
#[export] Hint Rewrite upd_status_seq_msg : upd.
Lemma upd_status_seq_frag c v : c_status (c <| c_seq_frag := v |>) = c_status c. Proof. reflexivity. Qed.
#[export] Hint Rewrite upd_status_seq_frag : upd.
Lemma upd_status_bf_pkt c v : c_status (c <| c_bf_pkt := v |>) = c_status c. Proof. reflexivity. Qed.
#[export] Hint Rewrite upd_status_bf_pkt : upd.
Lemma upd_status_bf_msg c v : c_status (c <| c_bf_msg := v |>) = c_status c. Proof. reflexivity. Qed.
#[export] Hint Rewrite upd_status_bf_msg : upd.
Lemma upd_status_out_timeout c v : c_status (c <| c_out_timeout := v |>) = c_status c. Proof. reflexivity. Qed.
#[export] Hint Rewrite upd_status_out_timeout : upd.
Lemma upd_status_temp_timeout c v : c_status (c <| c_temp_timeout := v |>) = c_status c. Proof. reflexivity. Qed.
#[export] Hint Rewrite upd_status_temp_timeout : upd.
Lemma upd_status_send_interval c v : c_status (c <| c_send_interval := v |>) = c_status c. Proof. reflexivity. Qed.
#[export] Hint Rewrite upd_status_send_interval : upd.
Lemma upd_status_ka_interval c v : c_status (c <| c_ka_interval := v |>) = c_status c. Proof. reflexivity. Qed.
#[export] Hint Rewrite upd_status_ka_interval : upd.
Lemma upd_status_last_recv c v : c_status (c <| c_last_recv := v |>) = c_status c. Proof. reflexivity. Qed.
#[export] Hint Rewrite upd_status_last_recv : upd.
Lemma upd_status_last_send c v : c_status (c <| c_last_send := v |>) = c_status c. Proof. reflexivity. Qed.
#[export] Hint Rewrite upd_status_last_send : upd.
Lemma upd_status_last_ka c v : c_status (c <| c_last_ka := v |>) = c_status c. Proof. reflexivity. Qed.
#[export] Hint Rewrite upd_status_last_ka : upd.
Lemma upd_status_sent c v : c_status (c <| c_sent := v |>) = c_status c. Proof. reflexivity. Qed.
#[export] Hint Rewrite upd_status_sent : upd.
Lemma upd_status_dropped c v : c_status (c <| c_dropped := v |>) = c_status c. Proof. reflexivity. Qed.
#[export] Hint Rewrite upd_status_dropped : upd.
Lemma upd_status_received c v : c_status (c <| c_received := v |>) = c_status c. Proof. reflexivity. Qed.
#[export] Hint Rewrite upd_status_received : upd.
Lemma upd_status_acked c v : c_status (c <| c_acked := v |>) = c_status c. Proof. reflexivity. Qed.
#[export] Hint Rewrite upd_status_acked : upd.
Lemma upd_status_timeouts c v : c_status (c <| c_timeouts := v |>) = c_status c. Proof. reflexivity. Qed.
#[export] Hint Rewrite upd_status_timeouts : upd.
Lemma upd_status_assembled c v : c_status (c <| c_assembled := v |>) = c_status c. Proof. reflexivity. Qed.
#[export] Hint Rewrite upd_status_assembled : upd.
Lemma upd_status_done c v : c_status (c <| c_done := v |>) = c_status c. Proof. reflexivity. Qed.
#[export] Hint Rewrite upd_status_done : upd.
Lemma upd_status_next_rid c v : c_status (c <| c_next_rid := v |>) = c_status c. Proof. reflexivity. Qed.
#[export] Hint Rewrite upd_status_next_rid : upd.
Lemma upd_status_hello_sent c v : c_status (c <| c_hello_sent := v |>) = c_status c. Proof. reflexivity. Qed.
#[export] Hint Rewrite upd_status_hello_sent : upd.
Lemma upd_status_conn_cb c v : c_status (c <| c_conn_cb := v |>) = c_status c. Proof. reflexivity. Qed.
#[export] Hint Rewrite upd_status_conn_cb : upd.
Lemma upd_status_token c v : c_status (c <| c_token := v |>) = c_status c. Proof. reflexivity. Qed.
#[export] Hint Rewrite upd_status_token : upd.
