(* MsgRecvP.v — C07 / C04 / C05, the receiver's half at MESSAGE level: when an endpoint accepts a
   datagram whose messages are labelled with the sender's true message indices (Model/Net3.v: mwf —
   wire number = wire j, half-range, a label always carries the same message) and processing it
   raises no exception, then every APP message of the datagram is either appended to
   incoming_messages in that very step, or its index was flagged by the 256-bit message window
   c_bf_msg — and then a message with the same index (hence the same payload) got past the window
   earlier.  The window ghost is RecvHist.wstate / RecvHistP.W (C04's refinement, built on C08's R). *)
From Coq Require Import Lia ZifyBool.
From RecordUpdate Require Import RecordUpdate.
From Model Require Import Base SeqNum Wire Conn RecvHist Net Net2 Net3.
From Proofs Require Import Tac SeqNumP ConnFrameP NonceP PackP ClearP AckP CallbackP RecvP RecvHistP C01P AckNamesP AckNetP.
Import RecordSetNotations.
Open Scope Z_scope.

Lemma raised_app a b : raised (a ++ b) = raised a || raised b.
Proof. unfold raised. apply existsb_app. Qed.

Lemma raised_filter_ret o :
  raised (filter (fun x => match x with ORet _ => false | _ => true end) o) = raised o.
Proof.
  induction o as [|x o IH]; [reflexivity|]. cbn [filter]. destruct x; cbn [raised existsb] in *; try exact IH;
    unfold raised in *; cbn [existsb]; rewrite IH; reflexivity.
Qed.

(* every index the window has let through has a record *)
Definition recorded (st : mghost) : Prop := forall j, In j (wacc (fst st)) -> exists c, In (j, c) (snd st).

Lemma w_dup_acc st j : w_dup 256 st j = true -> In j (wacc st) /\ wacc (w_next 256 st j) = wacc st.
Proof.
  destruct st as [[m acc]|]; cbn [w_dup w_next wacc]; [|discriminate].
  intros H. rewrite H. split; [|reflexivity].
  unfold spec_dup in H. apply andb_prop in H as [H _]. apply andb_prop in H as [H _].
  apply InB_In. exact H.
Qed.

Lemma w_fresh_acc st j : w_dup 256 st j = false -> wacc (w_next 256 st j) = j :: wacc st.
Proof. destruct st as [[m acc]|]; cbn [w_dup w_next wacc]; [intros ->|]; reflexivity. Qed.

(* ---------- processing one message that got past the window ---------- *)
Lemma recv_fragment_fields2 c now s p c' o : recv_fragment c now s p = (c', o) ->
  c_bf_msg c' = c_bf_msg c /\ exists ex, c_incoming c' = c_incoming c ++ ex.
Proof.
  unfold recv_fragment. intros E. destruct (_ <? _)%nat; [injection E as <- <-; split; [reflexivity|exists []; rewrite app_nil_r; reflexivity]|].
  injection E as <- _. destruct (fr_complete _); cbn.
  - split; [reflexivity|]. eexists. reflexivity.
  - split; [reflexivity|]. exists []. rewrite app_nil_r. reflexivity.
Qed.

Lemma recv_handshake_fields2 c t oo c' o : recv_handshake c t oo = (c', o) ->
  c_bf_msg c' = c_bf_msg c /\ c_incoming c' = c_incoming c.
Proof.
  intros E. split.
  - apply (recv_handshake_keeps c_bf_msg) in E; try (intros; reflexivity). exact E.
  - pose proof (recv_handshake_incoming c t oo) as H. rewrite E in H. exact H.
Qed.

Lemma proc_msg c now w orcs c1 o1 orcs' :
  (match w_type w with
   | APP => (recv_app c (w_seq w) (w_payload w), [], orcs)
   | APP_FRAGMENT => let '(c', o') := recv_fragment c now (w_seq w) (w_payload w) in (c', o', orcs)
   | DISCONNECT => (c <| c_status := DISCONNECTING |>, [], orcs)
   | KEEP_ALIVE | UNKNOWN => (c, [], orcs)
   | t => let '(c', o') := recv_handshake c t (hd no_oracle orcs) in (c', o', tl orcs)
   end) = (c1, o1, orcs') ->
  c_bf_msg c1 = c_bf_msg c /\ exists ex, c_incoming c1 = c_incoming c ++ ex /\
    (w_type w = APP -> ex = [(w_seq w, w_payload w)]).
Proof.
  intros E. destruct (w_type w) eqn:Et.
  - injection E as <- _ _. split; [reflexivity|]. exists []. rewrite app_nil_r. split; [reflexivity|discriminate].
  - destruct (recv_handshake _ CLIENT_HELLO _) as [c'' o''] eqn:Eh. injection E as <- _ _.
    apply recv_handshake_fields2 in Eh as [A B]. split; [exact A|]. exists []. rewrite app_nil_r. split; [exact B|discriminate].
  - destruct (recv_handshake _ SERVER_HELLO _) as [c'' o''] eqn:Eh. injection E as <- _ _.
    apply recv_handshake_fields2 in Eh as [A B]. split; [exact A|]. exists []. rewrite app_nil_r. split; [exact B|discriminate].
  - destruct (recv_handshake _ CHALLENGE_RESP _) as [c'' o''] eqn:Eh. injection E as <- _ _.
    apply recv_handshake_fields2 in Eh as [A B]. split; [exact A|]. exists []. rewrite app_nil_r. split; [exact B|discriminate].
  - injection E as <- _ _. split; [reflexivity|]. exists []. rewrite app_nil_r. split; [reflexivity|discriminate].
  - injection E as <- _ _. split; [reflexivity|]. exists []. rewrite app_nil_r. split; [reflexivity|discriminate].
  - injection E as <- _ _. split; [reflexivity|]. eexists. split; [reflexivity|]. intros _. reflexivity.
  - destruct (recv_fragment _ now (w_seq w) (w_payload w)) as [c'' o''] eqn:Ef. injection E as <- _ _.
    apply recv_fragment_fields2 in Ef as [A [ex B]]. split; [exact A|]. exists ex. split; [exact B|discriminate].
Qed.

(* ---------- the per-datagram theorem ---------- *)
Theorem recv_msgs_deliver ws : forall js c now orcs st c' o,
  length js = length ws -> W 256 (c_bf_msg c) (fst st) -> recorded st -> mwf st (combine ws js) ->
  recv_msgs c now ws orcs = (c', o) -> raised o = false ->
  let st' := fold_left mrec (combine ws js) st in
  W 256 (c_bf_msg c') (fst st') /\ recorded st' /\
  exists extra, c_incoming c' = c_incoming c ++ extra /\
    (forall j c0, In (j, c0) (snd st') ->
       In (j, c0) (snd st) \/
       exists w, In w ws /\ content w = c0 /\ (w_type w = APP -> In (w_payload w) (map snd extra))) /\
    (forall w, In w ws -> w_type w = APP ->
       In (w_payload w) (map snd extra) \/ exists j, In (j, content w) (snd st)).
Proof.
  induction ws as [|w r IH]; intros js c now orcs st c' o Hlen HW Hrec Hwf E Hnr; cbn [recv_msgs] in E.
  - injection E as <- <-. destruct js; [|discriminate]. cbn [combine fold_left].
    split; [exact HW|]. split; [exact Hrec|]. exists []. rewrite app_nil_r. split; [reflexivity|].
    split; [intros j c0 H; left; exact H|intros w []].
  - destruct js as [|j jr]; [discriminate|]. cbn [length] in Hlen. injection Hlen as Hlen.
    cbn [combine mwf fold_left fst snd] in *. destruct Hwf as (Hseq & Hok & Htruth & Hrest).
    pose proof (W_step 256 (c_bf_msg c) (fst st) j ltac:(lia) HW Hok) as Hs.
    rewrite <- Hseq in Hs.
    destruct (w_dup 256 (fst st) j) eqn:Hd.
    + (* flagged by the window: skipped; its index has a record, which is this message *)
      destruct Hs as [Hins HW1]. rewrite Hins in E.
      destruct (w_dup_acc _ _ Hd) as [Hj Hacc].
      set (st1 := mrec st (w, j)) in *.
      assert (S1 : snd st1 = snd st) by (subst st1; unfold mrec; cbn [fst snd]; rewrite Hd; reflexivity).
      assert (F1 : fst st1 = w_next 256 (fst st) j) by reflexivity.
      assert (Hrec1 : recorded st1).
      { intros j' Hj'. rewrite F1, Hacc in Hj'. rewrite S1. exact (Hrec j' Hj'). }
      assert (HW1' : W 256 (c_bf_msg c) (fst st1)) by (rewrite F1; exact HW1).
      destruct (IH jr c now _ st1 c' o Hlen HW1' Hrec1 Hrest E Hnr) as (A & B & extra & C1 & C2 & C3).
      split; [exact A|]. split; [exact B|]. exists extra. split; [exact C1|]. split.
      * intros j0 c0 H0. destruct (C2 j0 c0 H0) as [H|(w' & H1 & H2 & H3)]; [left; rewrite <- S1; exact H|].
        right. exists w'. split; [right; exact H1|]. auto.
      * intros w' [<-|Hw'] Hty.
        -- right. destruct (Hrec j Hj) as (c0 & Hc0). exists j. rewrite <- (Htruth c0 Hc0). exact Hc0.
        -- destruct (C3 w' Hw' Hty) as [H|(j' & H)]; [left; exact H|right; exists j'; rewrite <- S1; exact H].
    + (* new: it gets past the window and is processed *)
      destruct Hs as (f' & Hins & HW1). rewrite Hins in E.
      match type of E with context [match ?x with (_, _) => _ end] => destruct x as [[c1 o1] orcs'] eqn:E1 end.
      destruct (proc_msg (c <| c_bf_msg := f' |>) now w orcs c1 o1 orcs' E1) as (Bf & ex & Iex & Happ).
      cbn [c_bf_msg c_incoming set] in Bf, Iex.
      destruct (raised o1) eqn:Hr1; [injection E as <- <-; rewrite Hr1 in Hnr; discriminate|].
      destruct (recv_msgs c1 now r orcs') as [c2 o2] eqn:E2. injection E as <- <-.
      rewrite raised_app, Hr1 in Hnr. cbn [orb] in Hnr.
      set (st1 := mrec st (w, j)) in *.
      assert (S1 : snd st1 = (j, content w) :: snd st) by (subst st1; unfold mrec; cbn [fst snd]; rewrite Hd; reflexivity).
      assert (F1 : fst st1 = w_next 256 (fst st) j) by reflexivity.
      assert (Hrec1 : recorded st1).
      { intros j' Hj'. rewrite F1, (w_fresh_acc _ _ Hd) in Hj'. rewrite S1. destruct Hj' as [<-|Hj'].
        - exists (content w). left. reflexivity.
        - destruct (Hrec j' Hj') as (c0 & Hc0). exists c0. right. exact Hc0. }
      assert (HW1' : W 256 (c_bf_msg c1) (fst st1)) by (rewrite F1, Bf; exact HW1).
      destruct (IH jr c1 now _ st1 c2 o2 Hlen HW1' Hrec1 Hrest E2 Hnr) as (A & B & extra & C1 & C2 & C3).
      split; [exact A|]. split; [exact B|]. exists (ex ++ extra).
      split; [rewrite C1, Iex, app_assoc; reflexivity|].
      assert (Hself : w_type w = APP -> In (w_payload w) (map snd (ex ++ extra))).
      { intros Hty. rewrite (Happ Hty). cbn. left. reflexivity. }
      split.
      * intros j0 c0 H0. destruct (C2 j0 c0 H0) as [H|(w' & H1 & H2 & H3)].
        -- rewrite S1 in H. destruct H as [H|H]; [|left; exact H].
           injection H as <- <-. right. exists w. split; [left; reflexivity|]. split; [reflexivity|exact Hself].
        -- right. exists w'. split; [right; exact H1|]. split; [exact H2|].
           intros Hty. rewrite map_app. apply in_or_app. right. exact (H3 Hty).
      * intros w' [<-|Hw'] Hty; [left; exact (Hself Hty)|].
        destruct (C3 w' Hw' Hty) as [H|(j' & H)]; [left; rewrite map_app; apply in_or_app; right; exact H|].
        rewrite S1 in H. destruct H as [H|H]; [|right; exists j'; exact H].
        assert (Hc : content w = content w') by congruence. unfold content in Hc.
        assert (Ht : w_type w = w_type w') by congruence. assert (Hp : w_payload w = w_payload w') by congruence.
        left. rewrite <- Hp. apply Hself. congruence.
Qed.

(* ---------- datagrams without handshake messages (and without truncated fragments) never raise ---------- *)
Definition frag_ok (w : wmsg) : Prop := w_type w = APP_FRAGMENT -> (6 <= length (w_payload w))%nat.

Lemma recv_msgs_noraise ws : forall c now orcs c' o,
  has_hs ws = false -> Forall frag_ok ws -> recv_msgs c now ws orcs = (c', o) -> raised o = false.
Proof.
  induction ws as [|w r IH]; intros c now orcs c' o Hh Hf E; cbn [recv_msgs] in E.
  - injection E as <- <-. reflexivity.
  - unfold has_hs in Hh. cbn [existsb] in Hh. apply orb_false_elim in Hh as [Hw Hr].
    pose proof (Forall_inv Hf) as Fw. pose proof (Forall_inv_tail Hf) as Fr. unfold frag_ok in Fw.
    destruct (bf_insert (c_bf_msg c) (w_seq w)) as [bf|]; [|eapply IH; eassumption].
    match type of E with context [match ?x with (_, _) => _ end] => destruct x as [[c1 o1] orcs'] eqn:E1 end.
    assert (H1 : o1 = []).
    { destruct (w_type w) eqn:Et; try discriminate Hw; try (injection E1 as _ <- _; reflexivity).
      unfold recv_fragment in E1. specialize (Fw eq_refl).
      destruct (length (w_payload w) <? 6)%nat eqn:El; [apply Nat.ltb_lt in El; lia|].
      injection E1 as _ <- _. reflexivity. }
    subst o1. cbn [raised existsb] in E.
    destruct (recv_msgs c1 now r orcs') as [c2 o2] eqn:E2. injection E as <- <-. cbn [app]. eapply IH; eassumption.
Qed.

(* ---------- one receive call ---------- *)
Lemma open_dg_msgs key d ws : open_dgram key d = Ok ws -> dg_msgs d = ws.
Proof.
  unfold open_dgram, dg_msgs, body_payload. intros E. destruct key as [k|].
  - destruct (d_body d) as [k' sh p| |]; try discriminate.
    destruct (_ && _); cbn [bind] in E; [|discriminate]. rewrite E. reflexivity.
  - destruct (d_body d) as [| p |]; try discriminate.
    destruct (_ =? _); cbn [bind] in E; [|discriminate]. rewrite E. reflexivity.
Qed.

Lemma cb_only_raised o : cb_only o -> raised o = false.
Proof. apply cb_only_not_raised. Qed.

Lemma recv_accept_decomp c now d orcs c' o :
  recv c now d orcs = (c', o) -> opens c d && is_ok (bf_insert (c_bf_pkt c) (h_seq (d_hdr d))) = true ->
  exists c1 o2, c_bf_msg c1 = c_bf_msg c /\ c_incoming c1 = c_incoming c /\
    recv_msgs c1 now (dg_msgs d) orcs = (c', o2) /\ (raised o = false -> raised o2 = false).
Proof.
  unfold recv, opens. intros E Hg.
  destruct (keyless_refuses c (d_hdr d)); [discriminate|].
  destruct (open_dgram (c_key c) d) as [ms|] eqn:Eo; [|discriminate].
  rewrite (open_dg_msgs _ _ _ Eo).
  destruct (bf_insert (c_bf_pkt c) _) as [bf|]; [|discriminate].
  match type of E with context [handle_ack_bits ?c0 _] => set (cc := c0) in E end.
  destruct (handle_ack_bits cc (d_hdr d)) as [c1 o1] eqn:E1.
  destruct (recv_msgs c1 now ms orcs) as [c2 o2] eqn:E2. injection E as <- <-.
  apply handle_ack_bits_frame in E1 as [[_ _ _ _ _ _ _ B1 I1 _] _].
  exists c1, o2. split; [rewrite B1; reflexivity|]. split; [rewrite I1; reflexivity|]. split; [exact E2|].
  rewrite !raised_app. intros H. apply orb_false_elim in H as [_ H]. apply orb_false_elim in H as [H _]. exact H.
Qed.

Lemma recv_msgs_bfm_same ms c now orcs c' o :
  recv c now ms orcs = (c', o) -> opens c ms && is_ok (bf_insert (c_bf_pkt c) (h_seq (d_hdr ms))) = false ->
  c_bf_msg c' = c_bf_msg c.
Proof.
  unfold recv, opens. intros E Hg.
  destruct (keyless_refuses c (d_hdr ms)); [injection E as <- <-; reflexivity|].
  destruct (open_dgram (c_key c) ms) as [ws|]; [|injection E as <- <-; reflexivity].
  destruct (bf_insert (c_bf_pkt c) _) as [bf|]; [discriminate|injection E as <- <-; reflexivity].
Qed.

Lemma build_packet_recvside e c now c' r : build_packet e c now = (c', r) ->
  c_bf_msg c' = c_bf_msg c /\ c_incoming c' = c_incoming c.
Proof.
  unfold build_packet. intros E. destruct (_ <? _); [injection E as <- <-; auto|].
  destruct (build_impl e c now _ _) as [c1 r1] eqn:E1.
  assert (H1 : c_bf_msg c1 = c_bf_msg c /\ c_incoming c1 = c_incoming c).
  { unfold build_impl in E1.
    destruct (match c_pretry_msg c with [] => _ | _ => _ end) as [[prm msgs0] cur0].
    destruct (out_pass e (c_outgoing c) msgs0 cur0) as [[rem msgs] cu].
    match type of E1 with (if ?b then _ else _) = _ => destruct b end; injection E1 as <- _;
      repeat match goal with |- context [match ?x with [] => _ | _ :: _ => _ end] => destruct x end; auto. }
  destruct r1; injection E as <- <-; exact H1.
Qed.

Lemma tick_tail_recvside strict e c now c1 pk c2 o2 :
  build_packet e c now = (c1, pk) -> check_timeout strict c1 now = (c2, o2) ->
  c_bf_msg c2 = c_bf_msg c /\ c_incoming c2 = c_incoming c.
Proof.
  intros E1 E2. apply build_packet_recvside in E1 as [A B].
  apply check_timeout_frame in E2 as [[_ _ _ _ _ _ _ B2 I2 _] _]. split; congruence.
Qed.

Lemma client_update_recvside c now : c_bf_msg (fst (client_update c now)) = c_bf_msg c /\
  c_incoming (fst (client_update c now)) = c_incoming c.
Proof. unfold client_update. destruct (_ && (now >? _)); destruct (_ && (_ >? c_temp_timeout _)); cbn; auto. Qed.

(* ---------- every event of the receiving endpoint ---------- *)
Definition is_recv_ev (x : ev) : Prop := match x with ERecv _ _ _ | EClientTick _ _ => True | _ => False end.

Theorem step_accept_msgs e c x c' o d :
  step e c x = (c', o) -> accepts c x = Some d -> (has_hs (dg_msgs d) = true -> raised o = false) ->
  Forall frag_ok (dg_msgs d) ->
  is_recv_ev x /\
  exists c1 now orcs c2 o2, c_bf_msg c1 = c_bf_msg c /\ c_incoming c1 = c_incoming c /\
    recv_msgs c1 now (dg_msgs d) orcs = (c2, o2) /\ raised o2 = false /\
    c_bf_msg c' = c_bf_msg c2 /\ c_incoming c' = c_incoming c2.
Proof.
  intros E Hacc Hnr0 Hfr.
  assert (Hcase : forall c1 now orcs c2 o2, recv_msgs c1 now (dg_msgs d) orcs = (c2, o2) -> (raised o = false -> raised o2 = false) -> raised o2 = false).
  { intros c1 now orcs c2 o2 Er Hi. destruct (has_hs (dg_msgs d)) eqn:Eh; [apply Hi, Hnr0; reflexivity|].
    eapply recv_msgs_noraise; eassumption. } unfold accepts in Hacc. destruct x; cbn [pre_recv] in Hacc; try discriminate; cbn [step] in E.
  - (* client tick *)
    destruct r as [| |d0 orcs]; try discriminate.
    split; [exact I|]. unfold client_tick in E.
    destruct (client_update_recvside c now) as [B0 I0].
    destruct (client_update c now) as [c0 o0] eqn:E0. cbn [fst] in *.
    destruct (status_eqb (c_status c0) DROPPED); [discriminate|].
    destruct (opens c0 d0 && is_ok (bf_insert (c_bf_pkt c0) (h_seq (d_hdr d0)))) eqn:Hg; [|discriminate].
    injection Hacc as <-.
    destruct (recv c0 now d0 orcs) as [c1 o1] eqn:Er.
    destruct (recv_accept_decomp _ _ _ _ _ _ Er Hg) as (cm & o2 & Bm & Im & Em & Hr).
    set (o1f := filter (fun x => match x with ORet _ => false | _ => true end) o1) in E.
    assert (Hfin : forall ot cf, o = o0 ++ o1f ++ ot -> c_bf_msg cf = c_bf_msg c1 -> c_incoming cf = c_incoming c1 -> c' = cf ->
       exists c1' now' orcs' c2 o2', c_bf_msg c1' = c_bf_msg c /\ c_incoming c1' = c_incoming c /\
         recv_msgs c1' now' (dg_msgs d0) orcs' = (c2, o2') /\ raised o2' = false /\
         c_bf_msg c' = c_bf_msg c2 /\ c_incoming c' = c_incoming c2).
    { intros ot cf Ho Hb Hi ->. exists cm, now, orcs, c1, o2.
      split; [congruence|]. split; [congruence|]. split; [exact Em|]. split; [|split; assumption].
      apply (Hcase _ _ _ _ _ Em). intros Hnr. apply Hr. rewrite Ho, !raised_app in Hnr. apply orb_false_elim in Hnr as [_ Hnr]. apply orb_false_elim in Hnr as [Hnr _].
      subst o1f. rewrite raised_filter_ret in Hnr. exact Hnr. }
    destruct (raised o1f).
    { injection E as <- <-. apply (Hfin [] c1); auto. rewrite app_nil_r. reflexivity. }
    destruct (_ >? _).
    2:{ injection E as <- <-. apply (Hfin [] c1); auto. rewrite app_nil_r. reflexivity. }
    destruct (build_packet e c1 now) as [c2 pk] eqn:E2.
    destruct (check_timeout false c2 now) as [c3 o3] eqn:E3. injection E as <- <-.
    destruct (tick_tail_recvside _ _ _ _ _ _ _ _ E2 E3) as [B3 I3].
    apply (Hfin (match pk with Some p => emit c2 p | None => [] end ++ o3) c3); auto.
  - split; [exact I|].
    destruct (opens c d0 && is_ok (bf_insert (c_bf_pkt c) (h_seq (d_hdr d0)))) eqn:Hg; [|discriminate].
    injection Hacc as <-.
    destruct (recv_accept_decomp _ _ _ _ _ _ E Hg) as (cm & o2 & Bm & Im & Em & Hr).
    exists cm, now, orcs, c', o2. repeat split; auto. exact (Hcase _ _ _ _ _ Em Hr).
Qed.

Theorem step_noaccept_bfm e c x c' o : step e c x = (c', o) -> accepts c x = None -> c_bf_msg c' = c_bf_msg c.
Proof.
  intros E Hacc. unfold accepts in Hacc. destruct x; cbn [pre_recv] in Hacc; cbn [step] in E.
  - apply send_frame in E as [[_ _ _ _ _ _ _ B _ _] _]. exact B.
  - unfold client_tick in E.
    destruct (client_update_recvside c now) as [B0 I0].
    destruct (client_update c now) as [c0 o0] eqn:E0. cbn [fst] in *.
    destruct (status_eqb (c_status c0) DROPPED); [injection E as <- <-; exact B0|].
    match type of E with context [match ?y with (_, _) => _ end] => destruct y as [c1 o1] eqn:E1 end.
    assert (H1 : c_bf_msg c1 = c_bf_msg c).
    { destruct r as [|er|d orcs]; try (injection E1 as <- <-; exact B0).
      destruct (recv c0 now d orcs) as [c'' o''] eqn:Er. injection E1 as <- <-.
      destruct (opens c0 d && is_ok (bf_insert (c_bf_pkt c0) (h_seq (d_hdr d)))) eqn:Hg; [discriminate|].
      rewrite (recv_msgs_bfm_same _ _ _ _ _ _ Er Hg). exact B0. }
    destruct (raised o1); [injection E as <- <-; exact H1|].
    destruct (_ >? _); [|injection E as <- <-; exact H1].
    destruct (build_packet e c1 now) as [c2 pk] eqn:E2.
    destruct (check_timeout false c2 now) as [c3 o3] eqn:E3. injection E as <- <-.
    destruct (tick_tail_recvside _ _ _ _ _ _ _ _ E2 E3) as [B3 _]. congruence.
  - unfold server_tick in E. destruct (_ >? _); [|injection E as <- <-; reflexivity].
    destruct (build_packet e c now) as [c1 pk] eqn:E1.
    destruct (check_timeout true c1 now) as [c2 o2] eqn:E2. injection E as <- <-.
    destruct (tick_tail_recvside _ _ _ _ _ _ _ _ E1 E2) as [B3 _]. exact B3.
  - destruct (opens c d && is_ok (bf_insert (c_bf_pkt c) (h_seq (d_hdr d)))) eqn:Hg; [discriminate|].
    exact (recv_msgs_bfm_same _ _ _ _ _ _ E Hg).
  - injection E as <- <-. unfold disconnect. destruct (_ || _); reflexivity.
  - injection E as <- <-. destruct which as [|[[q|q|]|[q|q|]|]|q]; reflexivity.
  - injection E as <- <-. reflexivity.
  - injection E as <- <-. reflexivity.
  - injection E as <- <-. reflexivity.
Qed.
