(* PackP.v — packet assembly: size accounting, no loss / duplication of queued messages,
   messages that fit together travel together (C09; used by C05). *)
From Coq Require Import Lia ZifyBool Permutation.
From RecordUpdate Require Import RecordUpdate.
From Model Require Import Base SeqNum Wire Conn.
From Proofs Require Import Tac WireP.
Import RecordSetNotations.
Open Scope Z_scope.
Ltac Zify.zify_post_hook ::= Z.to_euclidean_division_equations.

Fixpoint sum_len (ms : list pmsg) : Z :=
  match ms with [] => 0 | m :: r => len (m_payload m) + sum_len r end.
Definition payload_size (ms : list pmsg) : Z := sum_len ms + overhead (len ms).

Lemma sum_len_app a b : sum_len (a ++ b) = sum_len a + sum_len b.
Proof. induction a as [|x a IH]; cbn [sum_len app]; lia. Qed.

Lemma len_app {A} (a b : list A) : len (a ++ b) = len a + len b.
Proof. unfold len. rewrite app_length. lia. Qed.
Lemma len_nonneg {A} (a : list A) : 0 <= len a.
Proof. unfold len. lia. Qed.
Lemma len_cons {A} (x : A) (a : list A) : len (x :: a) = 1 + len a.
Proof. unfold len. cbn [length]. lia. Qed.

Lemma overhead_mono a b : 0 <= a <= b -> overhead a <= overhead b.
Proof. unfold overhead. intros. repeat dif; lia. Qed.

(* the invariant the fit test maintains *)
Definition packed_ok (e : env) (msgs : list pmsg) (cur : Z) : Prop :=
  cur = sum_len msgs /\ len msgs <= 255 /\ (msgs <> [] -> payload_size msgs <= e_max_payload e + 2).

Lemma packed_ok_nil e : packed_ok e [] 0.
Proof. repeat split; cbn; try lia. intros H; contradiction. Qed.

Lemma fits_step e msgs cur m : packed_ok e msgs cur ->
  fits e (len (m_payload m)) (len msgs) cur = true ->
  packed_ok e (msgs ++ [m]) (cur + len (m_payload m)).
Proof.
  intros (Hc & Hn & Hs) Hf. unfold fits in Hf. apply andb_prop in Hf as [Hf1 Hf2].
  repeat split.
  - rewrite sum_len_app. cbn [sum_len]. lia.
  - rewrite len_app. cbn. lia.
  - intros _. unfold payload_size. rewrite sum_len_app, len_app. cbn [sum_len].
    replace (len [m]) with 1 by reflexivity. replace (len msgs + 1) with (1 + len msgs) by lia. lia.
Qed.

(* order-preserving split of a queue into the chosen and the remaining messages *)
Inductive Interleave {A} : list A -> list A -> list A -> Prop :=
  | IL_nil : Interleave [] [] []
  | IL_left x a b l : Interleave a b l -> Interleave (x :: a) b (x :: l)
  | IL_right x a b l : Interleave a b l -> Interleave a (x :: b) (x :: l).

Lemma Interleave_perm {A} (a b l : list A) : Interleave a b l -> Permutation (a ++ b) l.
Proof.
  induction 1; cbn; [constructor|constructor; assumption|].
  rewrite <- Permutation_middle. constructor. assumption.
Qed.

Lemma Interleave_nil_r {A} (a : list A) : Interleave a [] a.
Proof. induction a; constructor; assumption. Qed.

Lemma out_pass_spec e q : forall msgs cur rem msgs' cur',
  packed_ok e msgs cur ->
  out_pass e q msgs cur = (rem, msgs', cur') ->
  exists chosen, msgs' = msgs ++ chosen /\ Interleave chosen rem q /\ packed_ok e msgs' cur'.
Proof.
  induction q as [|m q IH]; intros msgs cur rem msgs' cur' Hok E; cbn [out_pass] in E.
  - injection E as <- <- <-. exists []. rewrite app_nil_r. split; [reflexivity|]. split; [constructor|exact Hok].
  - destruct (fits e (len (m_payload m)) (len msgs) cur) eqn:Hf.
    + destruct (IH _ _ _ _ _ (fits_step e msgs cur m Hok Hf) E) as (ch & E1 & E2 & E3).
      exists (m :: ch). split; [rewrite E1, <- app_assoc; reflexivity|]. split; [apply IL_left; exact E2|exact E3].
    + destruct (out_pass e q msgs cur) as [[rem0 ms0] cu0] eqn:E0. injection E as <- <- <-.
      destruct (IH _ _ _ _ _ Hok E0) as (ch & E1 & E2 & E3).
      exists ch. split; [exact E1|]. split; [apply IL_right; exact E2|exact E3].
Qed.

(* messages that fit together travel in one datagram *)
Lemma out_pass_all e q : forall msgs cur,
  packed_ok e msgs cur ->
  payload_size (msgs ++ q) <= e_max_payload e + 2 -> len (msgs ++ q) <= 255 ->
  out_pass e q msgs cur = ([], msgs ++ q, cur + sum_len q).
Proof.
  induction q as [|m q IH]; intros msgs cur Hok Hs Hn; cbn [out_pass].
  - rewrite app_nil_r. cbn. f_equal. lia.
  - assert (Hf : fits e (len (m_payload m)) (len msgs) cur = true).
    { destruct Hok as (Hc & _ & _). unfold fits. unfold payload_size in Hs.
      rewrite sum_len_app, len_app in Hs. cbn [sum_len] in Hs.
      rewrite len_app, len_cons in Hn. rewrite len_cons in Hs.
      pose proof (len_nonneg q). pose proof (len_nonneg msgs). pose proof (len_nonneg (m_payload m)).
      assert (0 <= sum_len q) by (clear; induction q; cbn; [lia|unfold len at 1; lia]).
      pose proof (overhead_mono (1 + len msgs) (len msgs + (1 + len q)) ltac:(lia)). lia. }
    rewrite Hf.
    replace (msgs ++ m :: q) with ((msgs ++ [m]) ++ q) in * by (rewrite <- app_assoc; reflexivity).
    rewrite (IH _ _ (fits_step e msgs cur m Hok Hf) Hs Hn). cbn [sum_len].
    f_equal. lia.
Qed.

Lemma retry_pass_spec e now delay items : forall prm msgs cur prm' msgs' cur',
  packed_ok e msgs cur ->
  retry_pass e now delay items prm msgs cur = (prm', msgs', cur') ->
  exists chosen, msgs' = msgs ++ chosen /\ packed_ok e msgs' cur'
                 /\ (forall m, In m chosen -> In m (map snd items)).
Proof.
  induction items as [|[ms m] r IH]; intros prm msgs cur prm' msgs' cur' Hok E; cbn [retry_pass] in E.
  - injection E as <- <- <-. exists []. rewrite app_nil_r. split; [reflexivity|]. split; [exact Hok|]. intros m [].
  - destruct (now - m_atime m <? delay).
    + destruct (IH _ _ _ _ _ _ Hok E) as (ch & E1 & E2 & E3). exists ch. split; [exact E1|]. split; [exact E2|].
      intros x Hx. right. apply E3. exact Hx.
    + destruct (fits e (len (m_payload m)) (len msgs) cur) eqn:Hf.
      * destruct (IH _ _ _ _ _ _ (fits_step e msgs cur m Hok Hf) E) as (ch & E1 & E2 & E3).
        exists (m :: ch). split; [rewrite E1, <- app_assoc; reflexivity|]. split; [exact E2|].
        intros x [Hx|Hx]; [left; exact Hx|right; apply E3; exact Hx].
      * destruct (IH _ _ _ _ _ _ Hok E) as (ch & E1 & E2 & E3). exists ch. split; [exact E1|]. split; [exact E2|].
        intros x Hx. right. apply E3. exact Hx.
Qed.

Lemma sum_len_stamp now ms : sum_len (map (stamp now) ms) = sum_len ms.
Proof. induction ms as [|m ms IH]; cbn [map sum_len stamp m_payload]; lia. Qed.

(* every packet built respects the size budget, whatever is queued *)
Theorem build_impl_size e c now ka delay c' h ms :
  build_impl e c now ka delay = (c', Some (h, ms)) ->
  len ms <= 255 /\ h_count h = len ms /\ (ms <> [] -> payload_size ms <= e_max_payload e + 2).
Proof.
  unfold build_impl. intros E.
  destruct (match c_pretry_msg c with [] => _ | _ => _ end) as [[prm msgs0] cur0] eqn:E0.
  assert (Hok0 : packed_ok e msgs0 cur0).
  { destruct (c_pretry_msg c).
    - injection E0 as <- <- <-. apply packed_ok_nil.
    - destruct (retry_pass_spec _ _ _ _ _ _ _ _ _ _ (packed_ok_nil e) E0) as (ch & -> & H & _). exact H. }
  destruct (out_pass e (c_outgoing c) msgs0 cur0) as [[rem msgs] cu] eqn:E1.
  destruct (out_pass_spec _ _ _ _ _ _ _ Hok0 E1) as (ch & _ & _ & (Hc & Hn & Hs)).
  match type of E with (if ?b then _ else _) = _ => destruct b; [discriminate|] end.
  injection E as _ <- <-. cbn [h_count].
  unfold len in *. rewrite map_length. repeat split; try lia.
  intros Hne. unfold payload_size in *. rewrite sum_len_stamp. unfold len. rewrite map_length.
  apply Hs. destruct msgs; [contradiction Hne; reflexivity|discriminate].
Qed.

(* length of the encoded payload = the size the fit test accounts for *)
Lemma enc_multi_len ms p : enc_multi (map wmsg_of ms) = Ok p -> len p = sum_len ms + 5 * len ms.
Proof.
  revert p. induction ms as [|m ms IH]; intros p E; cbn [map enc_multi fold_right] in E.
  - injection E as <-. reflexivity.
  - fold (enc_multi (map wmsg_of ms)) in E. destruct (enc_multi (map wmsg_of ms)) as [q|]; cbn [bind] in E; [|discriminate].
    match type of E with (if ?b then _ else _) = _ => destruct b; [|discriminate] end.
    assert (Ep : p = be 2 (len (m_payload m)) ++ be 2 (m_seq m) ++ [byte_of_Z (ptype_code (m_type m))]
                      ++ m_payload m ++ q) by (cbn [wmsg_of w_payload w_seq w_type] in E; congruence).
    subst p. clear E. rewrite !len_app, (IH q eq_refl). cbn [sum_len].
    unfold len. rewrite !be_length. cbn [length]. lia.
Qed.

Lemma encode_msgs_len ms p : encode_msgs (map wmsg_of ms) = Ok p -> len p = payload_size ms.
Proof.
  unfold payload_size. destruct ms as [|m1 [|m2 r]]; intros E.
  - injection E as <-. reflexivity.
  - cbn [map encode_msgs] in E. destruct (in_range 16 (w_seq (wmsg_of m1))); [|discriminate].
    assert (Ep : p = be 2 (m_seq m1) ++ m_payload m1) by (cbn [wmsg_of w_payload w_seq] in E; congruence).
    subst p. rewrite len_app. change (overhead (len [m1])) with 2. cbn [sum_len]. unfold len at 1. rewrite be_length. lia.
  - change (encode_msgs (map wmsg_of (m1 :: m2 :: r))) with (enc_multi (map wmsg_of (m1 :: m2 :: r))) in E.
    rewrite (enc_multi_len _ _ E). unfold overhead.
    assert (len (m1 :: m2 :: r) >= 2) by (rewrite !len_cons; pose proof (len_nonneg r); lia).
    repeat dif; lia.
Qed.

Lemma Interleave_nil_l_inv {A} (b l : list A) : Interleave [] b l -> b = l.
Proof.
  remember [] as a eqn:Ea. induction 1; [reflexivity|discriminate|]. f_equal. apply IHInterleave. exact Ea.
Qed.

(* queued messages never carry the type UNKNOWN (send_type is only called with real types) *)
Definition no_unknown (c : conn) : Prop :=
  forall m, In m (c_outgoing c) \/ In m (map snd (c_pretry_msg c)) -> m_type m <> UNKNOWN.

Lemma sort_items_in l : forall x, In x (map snd (sort_items l)) -> In x (map snd l).
Proof.
  induction l as [|y l IH]; intros x Hx; [exact Hx|]. cbn [sort_items fold_right] in Hx.
  fold (sort_items l) in Hx.
  assert (Hi : forall z s, In x (map snd (ins_item z s)) -> x = snd z \/ In x (map snd s)).
  { clear. intros z s. induction s as [|w s IHs]; cbn [ins_item map In]; intros H.
    - destruct H as [H|[]]; left; symmetry; exact H.
    - destruct (seq_lt (fst z) (fst w)); cbn [map In] in H.
      + destruct H as [H|[H|H]]; [left; symmetry; exact H|right; left; exact H|right; right; exact H].
      + destruct H as [H|H]; [right; left; exact H|]. destruct (IHs H) as [H'|H']; [left; exact H'|right; right; exact H']. }
  destruct (Hi _ _ Hx) as [H|H]; [left; symmetry; exact H|right; apply IH; exact H].
Qed.

Lemma Interleave_in_l {A} (a b l : list A) x : Interleave a b l -> In x a -> In x l.
Proof. induction 1; intros H'; [exact H'|destruct H' as [->|H']; [left; reflexivity|right; auto]|right; auto]. Qed.

(* nothing queued is lost or duplicated by packet construction *)
Theorem build_impl_partition e c now ka delay c' r :
  no_unknown c ->
  build_impl e c now ka delay = (c', r) ->
  exists from_retry from_out,
    Interleave from_out (c_outgoing c') (c_outgoing c)
    /\ (forall m, In m from_retry -> In m (map snd (c_pretry_msg c)))
    /\ match r with
       | Some (h, ms) => ms = map (stamp now) (from_retry ++ from_out)
       | None => from_retry = [] /\ from_out = []
       end.
Proof.
  unfold build_impl. intros Hnu E.
  destruct (match c_pretry_msg c with [] => _ | _ => _ end) as [[prm msgs0] cur0] eqn:E0.
  assert (H0 : packed_ok e msgs0 cur0 /\ forall m, In m msgs0 -> In m (map snd (c_pretry_msg c))).
  { destruct (c_pretry_msg c) eqn:Ep.
    - injection E0 as <- <- <-. split; [apply packed_ok_nil|intros m []].
    - destruct (retry_pass_spec _ _ _ _ _ _ _ _ _ _ (packed_ok_nil e) E0) as (ch & -> & H & Hin).
      split; [exact H|]. intros m Hm. cbn [app] in Hm. apply sort_items_in. apply Hin. exact Hm. }
  destruct H0 as [Hok0 Hin0].
  destruct (out_pass e (c_outgoing c) msgs0 cur0) as [[rem msgs] cu] eqn:E1.
  destruct (out_pass_spec _ _ _ _ _ _ _ Hok0 E1) as (ch & Hms & Hil & _).
  match type of E with (if ?b then _ else _) = _ => destruct b eqn:Hty end.
  - injection E as <- <-. cbn.
    destruct msgs as [|m0 msgs'].
    + destruct msgs0; [|discriminate]. destruct ch; [|discriminate].
      exists [], []. split; [exact Hil|]. split; [intros m []|split; reflexivity].
    + exfalso. assert (Hm0 : In m0 (msgs0 ++ ch)) by (rewrite <- Hms; left; reflexivity).
      assert (Hu : m_type m0 <> UNKNOWN).
      { apply Hnu. apply in_app_or in Hm0 as [H|H]; [right; apply Hin0; exact H|].
        left. apply (Interleave_in_l _ _ _ _ Hil H). }
      destruct (m_type m0); try discriminate. apply Hu. reflexivity.
  - injection E as <- <-. exists msgs0, ch.
    split; [|split; [exact Hin0|rewrite Hms; reflexivity]].
    repeat match goal with |- context [match ?x with [] => _ | _ :: _ => _ end] => destruct x end;
      cbn; exact Hil.
Qed.

(* messages that fit together travel in one datagram *)
Theorem build_impl_together e c now ka delay :
  c_pretry_msg c = [] -> c_outgoing c <> [] -> no_unknown c ->
  payload_size (c_outgoing c) <= e_max_payload e + 2 -> len (c_outgoing c) <= 255 ->
  exists c' h, build_impl e c now ka delay = (c', Some (h, map (stamp now) (c_outgoing c)))
               /\ c_outgoing c' = [].
Proof.
  intros Hp Hne Hnu Hs Hn. unfold build_impl. rewrite Hp.
  rewrite (out_pass_all e (c_outgoing c) [] 0 (packed_ok_nil e) Hs Hn). cbn [app].
  destruct (c_outgoing c) as [|m0 q] eqn:Eq; [contradiction Hne; reflexivity|].
  assert (Hu : m_type m0 <> UNKNOWN) by (apply Hnu; left; rewrite Eq; left; reflexivity).
  destruct (ptype_eqb (m_type m0) UNKNOWN) eqn:Hty.
  - exfalso. destruct (m_type m0); try discriminate. apply Hu. reflexivity.
  - eexists. eexists. split; [reflexivity|].
    repeat match goal with |- context [match ?x with [] => _ | _ :: _ => _ end] => destruct x end; reflexivity.
Qed.
