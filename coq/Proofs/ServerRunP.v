(* ServerRunP.v — run-level lifts for C10 over the server-loop model (Model/Server.v):
   (B) raise-irrelevance over whole runs: the loop driven by a handler oracle h and by (strip h) — the
       same handler that never raises — reach the same state and produce the same outputs except
       for the logged SExc lines;
   (A) the token invariant at every reachable state: pooled connection objects carry pairwise
       distinct non-zero tokens, every object of `connections` has a session key and a non-zero
       token. *)
From Coq Require Import Lia ZifyBool Permutation.
From RecordUpdate Require Import RecordUpdate.
From Model Require Import Base SeqNum Wire Conn Server.
From Proofs Require Import Tac ConnFrameP HandshakeP ServerP C10P.
Import RecordSetNotations.
Open Scope Z_scope.

#[local] Arguments call_handler : simpl never.
#[local] Arguments srv_msg : simpl never.
#[local] Arguments srv_recv : simpl never.
#[local] Arguments on_connect : simpl never.
#[local] Arguments deliver : simpl never.
#[local] Arguments disp_item : simpl never.
#[local] Arguments supd : simpl never.
#[local] Arguments gate : simpl never.
#[local] Arguments tick_client : simpl never.
#[local] Arguments sweep_conn : simpl never.
#[local] Arguments sweep_temp : simpl never.
#[local] Arguments srv_du : simpl never.
#[local] Arguments srv_sx : simpl never.
#[local] Arguments srv_shutdown : simpl never.
#[local] Arguments srv_step : simpl never.
#[local] Arguments recv_msgs : simpl never.

(* ====================================================================================== *)
(* (B) raise-irrelevance over whole runs                                                   *)
(* ====================================================================================== *)
Definition is_exc (x : sout) : bool := match x with SExc _ => true | _ => false end.
Definition noexc (o : list sout) : list sout := filter (fun x => negb (is_exc x)) o.

Definition clean2 (r : srv * list sout) : srv * list sout := (fst r, noexc (snd r)).
Definition clean3 {A} (r : srv * list sout * A) : srv * list sout * A :=
  let '(s, o, a) := r in (s, noexc o, a).

Lemma noexc_app a b : noexc (a ++ b) = noexc a ++ noexc b.
Proof. apply filter_app. Qed.
Lemma noexc_id o : Forall (fun x => is_exc x = false) o -> noexc o = o.
Proof.
  induction 1 as [|x r Hx _ IH]; simpl; auto. unfold noexc in *. simpl. rewrite Hx. simpl. congruence.
Qed.
Lemma noexc_idem o : noexc (noexc o) = noexc o.
Proof.
  apply noexc_id. apply Forall_forall. intros x I. apply filter_In in I. destruct I as [_ I].
  destruct (is_exc x); [discriminate|auto].
Qed.
Lemma noexc_cb_outs cid o : noexc (cb_outs cid o) = cb_outs cid o.
Proof.
  apply noexc_id. apply Forall_forall. intros x I. unfold cb_outs in I. apply in_flat_map in I.
  destruct I as (y & _ & I). destruct y; simpl in I; try tauto. destruct I as [<-|[]]. reflexivity.
Qed.
Lemma noexc_send_all l : noexc (send_all l) = send_all l.
Proof.
  apply noexc_id. induction l as [|[[[a hd] k] p] r IH]; cbn [send_all]; constructor; auto.
  destruct (_ && _); reflexivity.
Qed.
Lemma noexc_hlog o : hlog (noexc o) = hlog o.
Proof.
  induction o as [|x r IH]; simpl; auto. destruct x; simpl; rewrite ?IH; auto.
Qed.

(* h' does what h does (same client.send / client.disconnect calls in every handler call) and never
   raises *)
Section Strip.
Variables h h' : horacle.
Hypothesis Hacts : forall n ev, r_acts (h' n ev) = r_acts (h n ev).
Hypothesis Hquiet : forall n ev, r_raises (h' n ev) = false.

Lemma call_handler_strip e s ev : call_handler h' e s ev = clean2 (call_handler h e s ev).
Proof.
  unfold call_handler, clean2. cbv zeta. cbn [fst snd]. rewrite Hacts, Hquiet. f_equal.
  destruct (r_raises _); reflexivity.
Qed.

Lemma on_connect_strip e s cid : on_connect h' e s cid = clean2 (on_connect h e s cid).
Proof.
  unfold on_connect. destruct (sfind cid s) as [cl|]; [|reflexivity].
  destruct (pget _ _); [|reflexivity]. apply call_handler_strip.
Qed.

Lemma srv_msg_strip e s cid now m x :
  srv_msg h' e s cid now m x = clean3 (srv_msg h e s cid now m x).
Proof.
  unfold srv_msg. destruct (sfind cid s) as [cl|]; [|reflexivity].
  match goal with |- context [match (if ?b then ?u else ?v) with _ => _ end] =>
    destruct (if b then u else v) as [[t rand']|] end; [|reflexivity].
  destruct (recv_msgs _ _ _ _) as [c' outs].
  destruct (has_connect outs).
  - rewrite on_connect_strip. destruct (on_connect h e _ cid) as [s2 o2]. unfold clean2, clean3; cbn [fst snd].
    rewrite !noexc_app. f_equal. f_equal. f_equal.
    match goal with |- context [if ?b then [SHello _ _ _ _] else []] => destruct b end; reflexivity.
  - unfold clean3.
    match goal with |- context [if ?b then [SHello _ _ _ _] else []] => destruct b end; reflexivity.
Qed.

Lemma srv_msgs_strip e cid now ms : forall s xs,
  srv_msgs h' e s cid now ms xs = clean3 (srv_msgs h e s cid now ms xs).
Proof.
  induction ms as [|m r IH]; intros s xs; cbn [srv_msgs]; [reflexivity|].
  rewrite srv_msg_strip. destruct (srv_msg h e s cid now m (hd no_hsx xs)) as [[s1 o1] r1]. cbn [clean3].
  destruct r1; [reflexivity|]. rewrite IH.
  destruct (srv_msgs h e s1 cid now r _) as [[s2 o2] r2]. cbn [clean3]. rewrite noexc_app. reflexivity.
Qed.

Lemma srv_recv_strip e s cid now d xs :
  srv_recv h' e s cid now d xs = clean3 (srv_recv h e s cid now d xs).
Proof.
  unfold srv_recv. destruct (sfind cid s) as [cl|]; [|reflexivity].
  destruct (keyless_refuses _ _); [reflexivity|].
  destruct (open_dgram _ _) as [ms|er]; [|reflexivity].
  destruct (bf_insert _ _) as [bf|er2]; [|reflexivity].
  destruct (handle_ack_bits _ _) as [c1 o1]. rewrite srv_msgs_strip.
  destruct (srv_msgs h e _ cid now ms xs) as [[s2 o2] r2]. cbn [clean3].
  rewrite noexc_app, noexc_cb_outs. reflexivity.
Qed.

Lemma deliver_msgs_strip e cid q : forall s,
  deliver_msgs h' e s cid q = clean2 (deliver_msgs h e s cid q).
Proof.
  induction q as [|[ms p] r IH]; intros s; cbn [deliver_msgs]; [reflexivity|].
  rewrite call_handler_strip. destruct (call_handler h e s _) as [s1 o1]. unfold clean2 at 1; cbn [fst snd].
  rewrite IH. destruct (deliver_msgs h e s1 cid r) as [s2 o2]. unfold clean2; cbn [fst snd].
  rewrite noexc_app. reflexivity.
Qed.

Lemma deliver_strip e s cid : deliver h' e s cid = clean2 (deliver h e s cid).
Proof.
  unfold deliver. destruct (sfind cid s) as [cl|]; [|reflexivity].
  rewrite deliver_msgs_strip. destruct (deliver_msgs h e s cid _) as [s1 o1]. reflexivity.
Qed.

Lemma noexc_dgramerr (b : bool) a : noexc (if b then [SDgramErr a] else []) = if b then [SDgramErr a] else [].
Proof. destruct b; reflexivity. Qed.

Lemma disp_item_strip e s now a d xs :
  disp_item h' e s now a d xs = clean2 (disp_item h e s now a d xs).
Proof.
  unfold disp_item. destruct (pget a (s_conns s)) as [cl|].
  - rewrite srv_recv_strip. destruct (srv_recv h e s _ now d xs) as [[s1 o1] r1]. cbn [clean3].
    destruct (s_dead s1); [reflexivity|]. destruct r1.
    + unfold clean2; cbn [fst snd]. rewrite noexc_app. reflexivity.
    + rewrite deliver_strip. destruct (deliver h e s1 _) as [s2 o2]. unfold clean2; cbn [fst snd].
      rewrite noexc_app. reflexivity.
  - destruct (pget a (s_temp s)) as [cl|].
    + destruct (negb _); [reflexivity|].
      rewrite srv_recv_strip. destruct (srv_recv h e s _ now d xs) as [[s1 o1] r1]. cbn [clean3].
      destruct (s_dead s1); [reflexivity|]. unfold clean2; cbn [fst snd].
      rewrite noexc_app, noexc_dgramerr. reflexivity.
    + destruct (negb _); [reflexivity|].
      rewrite srv_recv_strip. destruct (srv_recv h e _ _ now d xs) as [[s1 o1] r1]. cbn [clean3].
      destruct (s_dead s1); [reflexivity|]. unfold clean2; cbn [fst snd].
      rewrite noexc_app, noexc_dgramerr. reflexivity.
Qed.

Lemma disp_all_strip e now q : forall s,
  disp_all h' e s now q = clean2 (disp_all h e s now q).
Proof.
  induction q as [|it r IH]; intros s; cbn [disp_all]; [reflexivity|].
  destruct (s_dead s); [reflexivity|].
  destruct (gate (s_block s) it) as [[[a d] xs]|].
  - rewrite disp_item_strip. destruct (disp_item h e s now a d xs) as [s1 o1]. unfold clean2 at 1; cbn [fst snd].
    rewrite IH. destruct (disp_all h e s1 now r) as [s2 o2]. unfold clean2; cbn [fst snd].
    rewrite noexc_app. reflexivity.
  - rewrite IH. destruct (disp_all h e s now r) as [s2 o2]. reflexivity.
Qed.

Lemma srv_du_strip e s i : srv_du h' e s i = clean2 (srv_du h e s i).
Proof.
  unfold srv_du. rewrite disp_all_strip. destruct (disp_all h e _ _ _) as [s1 o1]. unfold clean2 at 1; cbn [fst snd].
  destruct (s_dead s1); [reflexivity|].
  rewrite call_handler_strip. destruct (call_handler h e s1 HUpdate) as [s2 o2]. unfold clean2; cbn [fst snd].
  rewrite noexc_app. reflexivity.
Qed.

Lemma noexc_upderr (b : bool) cid : noexc (if b then [SUpdErr cid] else []) = if b then [SUpdErr cid] else [].
Proof. destruct b; reflexivity. Qed.

Lemma tick_client_noexc e s cl now s' o p r : tick_client e s cl now = (s', o, p, r) -> noexc o = o.
Proof.
  unfold tick_client. destruct (server_tick _ _ _) as [c' o']. intros [= <- <- <- <-]. apply noexc_cb_outs.
Qed.

Lemma sweep_conn_strip e s now cid :
  sweep_conn h' e s now cid = clean3 (sweep_conn h e s now cid).
Proof.
  unfold sweep_conn. destruct (pfind cid (s_conns s)) as [cl0|]; [|reflexivity].
  match goal with |- context [pfind cid (s_conns ?x)] =>
    match x with s => fail 1 | _ => set (sa := x) end end.
  destruct (pfind cid (s_conns sa)) as [cl|]; [|reflexivity].
  destruct (_ || _).
  - rewrite call_handler_strip. destruct (call_handler h e sa _) as [s1 o1]. unfold clean2; cbn [fst snd].
    destruct (pfind cid (s_conns s1)) as [cl1|]; [|reflexivity].
    destruct (tick_client e s1 cl1 now) as [[[s2 o2] snd_] r2] eqn:Tk. apply tick_client_noexc in Tk.
    cbn [clean3]. rewrite !noexc_app, Tk, noexc_upderr. reflexivity.
  - destruct (tick_client e sa cl now) as [[[s2 o2] snd_] r2] eqn:Tk. apply tick_client_noexc in Tk.
    cbn [clean3]. rewrite !noexc_app, Tk, noexc_upderr. reflexivity.
Qed.

Lemma sweep_temp_noexc e s now cid : sweep_temp e s now cid = clean3 (sweep_temp e s now cid).
Proof.
  unfold sweep_temp. destruct (pfind cid (s_temp s)) as [cl|]; [|reflexivity].
  destruct (_ || _); [reflexivity|].
  destruct (tick_client e s cl now) as [[[s2 o2] snd_] r2] eqn:Tk. apply tick_client_noexc in Tk.
  cbn [clean3]. rewrite !noexc_app, Tk, noexc_upderr. reflexivity.
Qed.

Lemma sweep_list_strip (f f' : srv -> Z -> srv * list sout * list pending) :
  (forall s cid, f' s cid = clean3 (f s cid)) ->
  forall ids s, sweep_list f' s ids = clean3 (sweep_list f s ids).
Proof.
  intros Hf. induction ids as [|cid r IH]; intros s; cbn [sweep_list]; [reflexivity|].
  rewrite Hf. destruct (f s cid) as [[s1 o1] p1]. cbn [clean3]. rewrite IH.
  destruct (sweep_list f s1 r) as [[s2 o2] p2]. cbn [clean3]. rewrite noexc_app. reflexivity.
Qed.

Lemma shutdown_list_strip e ids : forall s,
  shutdown_list h' e s ids = clean2 (shutdown_list h e s ids).
Proof.
  induction ids as [|cid r IH]; intros s; cbn [shutdown_list]; [reflexivity|].
  destruct (pfind cid (s_conns s)) as [cl|]; [|apply IH].
  rewrite call_handler_strip. destruct (call_handler h e s _) as [s1 o1]. unfold clean2 at 1; cbn [fst snd].
  rewrite IH. destruct (shutdown_list h e _ r) as [s2 o2]. unfold clean2; cbn [fst snd].
  rewrite noexc_app. reflexivity.
Qed.

Lemma srv_shutdown_strip e s : srv_shutdown h' e s = clean2 (srv_shutdown h e s).
Proof.
  unfold srv_shutdown. rewrite shutdown_list_strip. destruct (shutdown_list h e s _) as [s1 o1].
  unfold clean2 at 1; cbn [fst snd].
  rewrite call_handler_strip. destruct (call_handler h e s1 HShutdown) as [s2 o2]. unfold clean2; cbn [fst snd].
  rewrite noexc_app. reflexivity.
Qed.

Lemma srv_sx_strip e s i : srv_sx h' e s i = clean2 (srv_sx h e s i).
Proof.
  unfold srv_sx.
  rewrite (sweep_list_strip (fun s cid => sweep_conn h e s (i_ts i) cid)
                            (fun s cid => sweep_conn h' e s (i_ts i) cid))
    by (intros; apply sweep_conn_strip).
  destruct (sweep_list _ s _) as [[s3 o3] p3]. cbn [clean3].
  destruct (sweep_list _ s3 _) as [[s4 o4] p4] eqn:S4.
  assert (N4 : noexc o4 = o4).
  { pose proof (sweep_list_strip (fun s cid => sweep_temp e s (i_ts i) cid)
                                 (fun s cid => sweep_temp e s (i_ts i) cid)
                                 (fun s cid => sweep_temp_noexc e s (i_ts i) cid) (map cl_id (s_temp s3)) s3) as X.
    rewrite S4 in X. cbn [clean3] in X. congruence. }
  destruct (i_stop i).
  - rewrite srv_shutdown_strip. destruct (srv_shutdown h e s4) as [s6 o6]. unfold clean2; cbn [fst snd].
    rewrite !noexc_app, noexc_send_all, N4. reflexivity.
  - unfold clean2; cbn [fst snd]. rewrite !noexc_app, noexc_send_all, N4. reflexivity.
Qed.

Lemma srv_step_strip e s i : srv_step h' e s i = clean2 (srv_step h e s i).
Proof.
  unfold srv_step. destruct (negb (s_active s) || s_dead s); [reflexivity|].
  rewrite srv_du_strip. destruct (srv_du h e s i) as [s2 o2]. unfold clean2 at 1; cbn [fst snd].
  destruct (s_dead s2); [reflexivity|].
  rewrite srv_sx_strip. destruct (srv_sx h e s2 i) as [s6 o6]. unfold clean2; cbn [fst snd].
  rewrite noexc_app. reflexivity.
Qed.

Lemma srv_run_strip e is : forall s, srv_run h' e s is = clean2 (srv_run h e s is).
Proof.
  induction is as [|i r IH]; intros s; cbn [srv_run]; [reflexivity|].
  rewrite srv_step_strip. destruct (srv_step h e s i) as [s1 o1]. unfold clean2 at 1; cbn [fst snd].
  rewrite IH. destruct (srv_run h e s1 r) as [s2 o2]. unfold clean2; cbn [fst snd].
  rewrite noexc_app. reflexivity.
Qed.

Lemma srv_life_strip e g bl is : srv_life h' e g bl is = clean2 (srv_life h e g bl is).
Proof.
  unfold srv_life, srv_start. rewrite call_handler_strip.
  destruct (call_handler h e (srv0 g bl) HStarting) as [s0 o0]. unfold clean2 at 1; cbn [fst snd].
  rewrite srv_run_strip. destruct (srv_run h e s0 is) as [s1 o1]. unfold clean2; cbn [fst snd].
  rewrite noexc_app. reflexivity.
Qed.

End Strip.

(* the statements used in Properties/C10.v *)
Lemma strip_acts h : forall n ev, r_acts (strip h n ev) = r_acts (h n ev).
Proof. reflexivity. Qed.
Lemma strip_quiet h : forall n ev, r_raises (strip h n ev) = false.
Proof. reflexivity. Qed.

Theorem C10_handler_raise_irrelevant_run_proof : forall h e s ins,
  fst (srv_run (strip h) e s ins) = fst (srv_run h e s ins) /\
  snd (srv_run (strip h) e s ins) = noexc (snd (srv_run h e s ins)).
Proof. intros. rewrite (srv_run_strip h (strip h) (strip_acts h) (strip_quiet h)). split; reflexivity. Qed.

Theorem C10_handler_raise_irrelevant_proof : forall h e g bl ins,
  fst (srv_life (strip h) e g bl ins) = fst (srv_life h e g bl ins) /\
  snd (srv_life (strip h) e g bl ins) = noexc (snd (srv_life h e g bl ins)) /\
  hlog (snd (srv_life (strip h) e g bl ins)) = hlog (snd (srv_life h e g bl ins)).
Proof.
  intros. rewrite (srv_life_strip h (strip h) (strip_acts h) (strip_quiet h)).
  unfold clean2; cbn [fst snd]. repeat split; auto. apply noexc_hlog.
Qed.

(* (strip h) never produces an SExc line: the filtered trace is the trace of a never-raising run *)
Theorem C10_strip_never_logs_proof : forall h e g bl ins,
  noexc (snd (srv_life (strip h) e g bl ins)) = snd (srv_life (strip h) e g bl ins).
Proof.
  intros. rewrite (srv_life_strip h (strip h) (strip_acts h) (strip_quiet h)).
  unfold clean2; cbn [fst snd]. apply noexc_idem.
Qed.

(* two handlers that do the same things and differ only in WHICH calls raise: same final state,
   same trace up to the exception lines, same events *)
Theorem C10_raise_pattern_irrelevant_proof : forall h1 h2 e g bl ins,
  (forall n ev, r_acts (h1 n ev) = r_acts (h2 n ev)) ->
  fst (srv_life h1 e g bl ins) = fst (srv_life h2 e g bl ins) /\
  noexc (snd (srv_life h1 e g bl ins)) = noexc (snd (srv_life h2 e g bl ins)) /\
  hlog (snd (srv_life h1 e g bl ins)) = hlog (snd (srv_life h2 e g bl ins)).
Proof.
  intros h1 h2 e g bl ins A.
  pose proof (srv_life_strip h1 (strip h1) (strip_acts h1) (strip_quiet h1) e g bl ins) as E1.
  assert (A2 : forall n ev, r_acts (strip h1 n ev) = r_acts (h2 n ev)) by (intros; cbn; apply A).
  pose proof (srv_life_strip h2 (strip h1) A2 (strip_quiet h1) e g bl ins) as E2.
  rewrite E1 in E2. unfold clean2 in E2. injection E2 as X Y. repeat split; auto.
  rewrite <- (noexc_hlog (snd (srv_life h1 e g bl ins))), <- (noexc_hlog (snd (srv_life h2 e g bl ins))).
  congruence.
Qed.

(* ====================================================================================== *)
(* (A) the token invariant over whole runs                                                 *)
(* ====================================================================================== *)
Definition ctok (cl : client) : Z := c_token (cl_conn cl).
Definition ckey (cl : client) : option Z := c_key (cl_conn cl).
Definition csig (cl : client) : Z * Z * option Z * bool :=
  (cl_id cl, ctok cl, ckey cl, c_server (cl_conn cl)).
Definition pooled (s : srv) : pool := s_conns s ++ s_temp s.

(* T1: every pooled object is a server-side connection, and one that holds a session key holds a
       non-zero token;  T2: every object of `connections` holds a session key;
   T3: two different pooled objects never share a non-zero token *)
Definition TInv (s : srv) : Prop :=
  (forall cl, In cl (pooled s) -> c_server (cl_conn cl) = true /\ (ckey cl <> None -> ctok cl <> 0)) /\
  (forall cl, In cl (s_conns s) -> ckey cl <> None) /\
  (forall cl1 cl2, In cl1 (pooled s) -> In cl2 (pooled s) -> cl_id cl1 <> cl_id cl2 ->
                   ctok cl1 <> 0 -> ctok cl1 <> ctok cl2).

Lemma tokens_in_use_pooled s : tokens_in_use s = map ctok (pooled s).
Proof. reflexivity. Qed.

Lemma csig_eq z y : csig z = csig y ->
  cl_id z = cl_id y /\ ctok z = ctok y /\ ckey z = ckey y /\ c_server (cl_conn z) = c_server (cl_conn y).
Proof. unfold csig. intros [= A B C D]. auto. Qed.

(* s' holds no object (up to the fields the invariant reads) that s did not hold, and an object
   that entered `connections` holds a key: everything but token assignment and the creation of a
   new connection object is of this kind *)
Definition le (s s' : srv) : Prop :=
  (forall y, In y (pooled s') -> exists z, In z (pooled s) /\ csig z = csig y) /\
  (forall y, In y (s_conns s') ->
     exists z, csig z = csig y /\ (In z (s_conns s) \/ (In z (pooled s) /\ ckey z <> None))).

Lemma in_pooled_conns s y : In y (s_conns s) -> In y (pooled s).
Proof. intros. apply in_or_app. auto. Qed.
Lemma in_pooled_temp s y : In y (s_temp s) -> In y (pooled s).
Proof. intros. apply in_or_app. auto. Qed.

Lemma le_refl s : le s s.
Proof. split; intros y I; exists y; auto. Qed.

Lemma le_trans a b c : le a b -> le b c -> le a c.
Proof.
  intros [A1 A2] [B1 B2]. split.
  - intros y I. destruct (B1 y I) as (z & Iz & Ez). destruct (A1 z Iz) as (w & Iw & Ew).
    exists w. split; auto. congruence.
  - intros y I. destruct (B2 y I) as (z & Ez & [Iz|[Iz Kz]]).
    + destruct (A2 z Iz) as (w & Ew & Hw). exists w. split; [congruence|auto].
    + destruct (A1 z Iz) as (w & Iw & Ew). exists w. split; [congruence|]. right. split; auto.
      apply csig_eq in Ew. destruct Ew as (_ & _ & K & _). congruence.
Qed.

Lemma TInv_le s s' : le s s' -> TInv s -> TInv s'.
Proof.
  intros [L1 L2] (T1 & T2 & T3). split; [|split].
  - intros cl I. destruct (L1 cl I) as (z & Iz & Ez). apply csig_eq in Ez. destruct Ez as (_ & A & B & C).
    destruct (T1 z Iz) as [X Y]. rewrite <- A, <- B, <- C. auto.
  - intros cl I. destruct (L2 cl I) as (z & Ez & Hz). apply csig_eq in Ez. destruct Ez as (_ & _ & B & _).
    rewrite <- B. destruct Hz as [Hz|[_ Hz]]; auto.
  - intros cl1 cl2 I1 I2 N Z1. destruct (L1 cl1 I1) as (z1 & J1 & E1). destruct (L1 cl2 I2) as (z2 & J2 & E2).
    apply csig_eq in E1, E2. destruct E1 as (A1 & B1 & _), E2 as (A2 & B2 & _).
    rewrite <- B1, <- B2. apply T3; auto; congruence.
Qed.

Lemma le_incl s s' : incl (s_conns s') (s_conns s) -> incl (s_temp s') (s_temp s) -> le s s'.
Proof.
  intros A B. split.
  - intros y I. exists y. split; auto. apply in_app_iff in I. apply in_app_iff.
    destruct I as [I|I]; [left; apply A|right; apply B]; auto.
  - intros y I. exists y. split; auto.
Qed.

(* weaker: identities and "holds a key" survive *)
Definition kmono (s s' : srv) : Prop :=
  forall y, In y (pooled s') -> exists z, In z (pooled s) /\ cl_id z = cl_id y /\ (ckey z <> None -> ckey y <> None).
Lemma kmono_refl s : kmono s s.
Proof. intros y I. exists y. auto. Qed.
Lemma kmono_trans a b c : kmono a b -> kmono b c -> kmono a c.
Proof.
  intros A B y I. destruct (B y I) as (z & Iz & Ez & Kz). destruct (A z Iz) as (w & Iw & Ew & Kw).
  exists w. split; auto. split; [congruence|auto].
Qed.
Lemma le_kmono s s' : le s s' -> kmono s s'.
Proof.
  intros [L _] y I. destruct (L y I) as (z & Iz & Ez). apply csig_eq in Ez. destruct Ez as (A & _ & K & _).
  exists z. split; auto. split; auto. congruence.
Qed.

(* ---------- pool operations ---------- *)
Lemma in_pmap_id cid f p y : In y (pmap_id cid f p) ->
  exists z, In z p /\ cl_id y = cl_id z /\ cl_addr y = cl_addr z /\
            ((cl_id z <> cid /\ y = z) \/ (cl_id z = cid /\ cl_conn y = f (cl_conn z))).
Proof.
  unfold pmap_id. intros I. apply in_map_iff in I. destruct I as (z & E & I). exists z. split; auto.
  destruct (cl_id z =? cid) eqn:C; subst y.
  - cbn. repeat split; auto. right. split; [lia|auto].
  - repeat split; auto. left. split; [lia|auto].
Qed.

Lemma pooled_supd cid f s : pooled (supd cid f s) = pmap_id cid f (pooled s).
Proof. unfold supd, pooled, pmap_id; cbn. rewrite map_app. reflexivity. Qed.
Lemma conns_supd cid f s : s_conns (supd cid f s) = pmap_id cid f (s_conns s).
Proof. reflexivity. Qed.

Lemma in_pdel a p y : In y (pdel a p) -> In y p.
Proof. unfold pdel. intros I. apply filter_In in I. tauto. Qed.
Lemma in_pset cl p y : In y (pset cl p) -> y = cl \/ In y p.
Proof.
  induction p as [|x r IH]; simpl.
  - intros [<-|[]]; auto.
  - destruct (addr_eqb _ _); simpl; intros [<-|I]; auto. destruct (IH I); auto.
Qed.

Lemma le_supd_same s cid f :
  (forall z, In z (pooled s) -> cl_id z = cid -> same (cl_conn z) (f (cl_conn z))) -> le s (supd cid f s).
Proof.
  intros H.
  assert (X : forall p y, incl p (pooled s) -> In y (pmap_id cid f p) -> exists z, In z p /\ csig z = csig y).
  { intros p y P I. apply in_pmap_id in I. destruct I as (z & Iz & Ei & _ & [[N ->]|[E C]]); exists z; split; auto.
    destruct (H z (P z Iz) E) as (K & S & T). unfold csig, ctok, ckey. rewrite C, K, S, T, Ei. reflexivity. }
  split.
  - intros y I. rewrite pooled_supd in I. apply X in I; [auto|apply incl_refl].
  - intros y I. rewrite conns_supd in I. apply X in I.
    + destruct I as (z & Iz & Ez). exists z. auto.
    + intros z Iz. apply in_pooled_conns; auto.
Qed.

Lemma NoDup_map_inj {A B} (f : A -> B) l a b : NoDup (map f l) -> In a l -> In b l -> f a = f b -> a = b.
Proof.
  induction l as [|x r IH]; simpl; [tauto|]. intros N. inversion N as [|? ? N1 N2]; subst.
  intros [->|Ia] [->|Ib] E; auto.
  - exfalso. apply N1. rewrite E. apply in_map; auto.
  - exfalso. apply N1. rewrite <- E. apply in_map; auto.
Qed.

Lemma Inv_nodup_ids s phi : Inv s phi -> NoDup (map cl_id (s_temp s ++ s_conns s)).
Proof. intros (A & _). rewrite <- shape_app, shape_ids in A. exact A. Qed.

Lemma pooled_unique s phi cl cl' :
  Inv s phi -> In cl (pooled s) -> In cl' (pooled s) -> cl_id cl = cl_id cl' -> cl = cl'.
Proof.
  intros I A B E. apply Inv_nodup_ids in I. eapply NoDup_map_inj; eauto.
  - unfold pooled in A. apply in_app_iff in A. apply in_app_iff. tauto.
  - unfold pooled in B. apply in_app_iff in B. apply in_app_iff. tauto.
Qed.

(* ---------- what the connection-level operations leave alone ---------- *)
Lemma same_disconnect c k : same c (disconnect c k).
Proof. unfold disconnect, send_type, same. destruct (_ || _); cbn; auto. Qed.

Lemma same_send e c p r k : same c (fst (send e c p r k)).
Proof.
  destruct (send e c p r k) as [c' o] eqn:E. apply send_frame in E. destruct E as [[[Sv] K _ _ _ _ _ _ _ T] _].
  cbn. repeat split; auto.
Qed.

Lemma same_server_tick e c now : same c (fst (server_tick e c now)).
Proof.
  unfold server_tick. destruct (_ >? _); [|apply same_refl].
  pose proof (build_packet_same e c now) as B. destruct (build_packet e c now) as [c2 pk]; cbn in B.
  destruct (check_timeout_same true c2 now) as [T _]. destruct (check_timeout true c2 now) as [c3 o3]; cbn in *.
  apply same_st_same. eapply same_st_trans; eauto.
Qed.

(* ---------- handler calls ---------- *)
Lemma apply_action_le e s a : le s (apply_action e s a).
Proof.
  destruct a; cbn [apply_action]; destruct (pget _ _); try apply le_refl; apply le_supd_same; intros z _ _.
  - apply same_disconnect.
  - apply same_send.
Qed.
Lemma fold_actions_le e l : forall s, le s (fold_left (apply_action e) l s).
Proof.
  induction l as [|a r IH]; cbn [fold_left]; intros s; [apply le_refl|].
  eapply le_trans; [apply apply_action_le|apply IH].
Qed.
Lemma call_handler_le h e s ev s' o : call_handler h e s ev = (s', o) -> le s s'.
Proof.
  unfold call_handler. intros [= <- <-]. eapply le_trans; [|apply fold_actions_le].
  apply le_incl; cbn; apply incl_refl.
Qed.

(* ---------- promotion ---------- *)
Lemma on_connect_le h e s cid s' o :
  on_connect h e s cid = (s', o) ->
  (forall cl, In cl (pooled s) -> cl_id cl = cid -> ckey cl <> None) -> le s s'.
Proof.
  unfold on_connect. destruct (sfind cid s) as [cl|] eqn:F. 2:{ intros [= <- <-] _. apply le_refl. }
  destruct (pget (cl_addr cl) (s_temp s)) as [x|]. 2:{ intros [= <- <-] _. apply le_refl. }
  intros C K. apply call_handler_le in C. eapply le_trans; [|exact C].
  apply sfind_in in F. destruct F as [Ec Mem].
  assert (P : In cl (pooled s)) by (apply in_app_iff; tauto).
  split.
  - intros y I. exists y. split; auto. unfold pooled in I; cbn in I. apply in_app_iff in I. destruct I as [I|I].
    + apply in_pset in I. destruct I as [->|I]; auto. apply in_pooled_conns; auto.
    + apply in_pdel in I. apply in_pooled_temp; auto.
  - intros y I. cbn in I. apply in_pset in I. exists y. split; auto. destruct I as [->|I]; auto.
Qed.

(* ---------- one message: the only place where a token is assigned ---------- *)
Lemma recv_msgs_nil c now orcs : recv_msgs c now [] orcs = (c, []).
Proof. reflexivity. Qed.

Lemma msg1_tks c now m orcs c1 o1 orcs' :
  c_server c = true -> msg1 c now m orcs = (c1, o1, orcs') ->
  same c c1 \/
  (w_type m = CLIENT_HELLO /\ o_parse (hd no_oracle orcs) = 0 /\ o_version_ok (hd no_oracle orcs) = true /\
   c_server c1 = true /\ c_token c1 = o_token (hd no_oracle orcs) /\ c_key c1 <> None).
Proof.
  intros Sv. unfold msg1. destruct (w_type m) eqn:Ty.
  - intros [= <- <- <-]. left. apply same_refl.
  - (* CLIENT_HELLO *)
    unfold recv_handshake. rewrite Sv.
    destruct (negb (o_parse _ =? 0)) eqn:P. { intros [= <- <- <-]. left. apply same_refl. }
    destruct (negb (o_version_ok _)) eqn:V. { intros [= <- <- <-]. left. apply same_refl. }
    intros [= <- <- <-]. right. split; auto. split; [lia|].
    split; [destruct (o_version_ok _); auto; discriminate|].
    unfold send_type; cbn. repeat split; auto. discriminate.
  - (* SERVER_HELLO on a server-side object: the base-class no-op *)
    unfold recv_handshake. rewrite Sv. intros [= <- <- <-]. left. apply same_refl.
  - (* CHALLENGE_RESP *)
    unfold recv_handshake. rewrite Sv.
    destruct (negb (o_parse _ =? 0)). { intros [= <- <- <-]. left. apply same_refl. }
    destruct (o_temp_token _) as [t|]. 2:{ intros [= <- <- <-]. left. apply same_refl. }
    destruct (t =? o_token _); intros [= <- <- <-]; left; repeat split.
  - intros [= <- <- <-]. left. apply same_refl.
  - intros [= <- <- <-]. left. repeat split.
  - intros [= <- <- <-]. left. repeat split.
  - destruct (recv_fragment_same c now (w_seq m) (w_payload m)) as [[S _] _].
    destruct (recv_fragment c now (w_seq m) (w_payload m)) as [cf of]. cbn [fst] in S.
    intros [= <- <- <-]. left. exact S.
Qed.

Lemma recv_one_tks c now m o c' outs :
  c_server c = true -> recv_msgs c now [m] [o] = (c', outs) ->
  same c c' \/
  (w_type m = CLIENT_HELLO /\ (exists bf, bf_insert (c_bf_msg c) (w_seq m) = Ok bf) /\ o_parse o = 0 /\
   o_version_ok o = true /\ c_server c' = true /\ c_token c' = o_token o /\ c_key c' <> None).
Proof.
  intros Sv. rewrite recv_msgs_cons. destruct (bf_insert (c_bf_msg c) (w_seq m)) as [bf|er] eqn:B.
  2:{ rewrite recv_msgs_nil. intros [= <- <-]. left. apply same_refl. }
  destruct (msg1 (c <| c_bf_msg := bf |>) now m [o]) as [[c1 o1] orcs'] eqn:M.
  apply msg1_tks in M; [|exact Sv]. rewrite recv_msgs_nil.
  assert (E : c' = c1 -> same c c' \/
    (w_type m = CLIENT_HELLO /\ (exists bf, bf_insert (c_bf_msg c) (w_seq m) = Ok bf) /\ o_parse o = 0 /\
     o_version_ok o = true /\ c_server c' = true /\ c_token c' = o_token o /\ c_key c' <> None)).
  { intros ->. destruct M as [(K & S & T)|(Ty & Pz & Vo & S & T & K)].
    - left. cbn in K, S, T. repeat split; auto.
    - right. cbn [hd] in Pz, Vo, T. repeat split; eauto. }
  destruct (raised o1); intros [= <- <-]; (destruct (E eq_refl) as [X|(A1 & _ & A2)];
    [left; exact X|right; split; [exact A1|split; [eauto|exact A2]]]).
Qed.

(* the state update of srv_msg: the object cid gets the connection state c'' *)
Lemma settok_T s phi cid cl c'' t rnd :
  Inv s phi -> TInv s -> In cl (pooled s) -> cl_id cl = cid ->
  (same (cl_conn cl) c'' \/
   (t <> 0 /\ ~ In t (tokens_in_use s) /\ c_token c'' = t /\ c_server c'' = true /\
    (c_key (cl_conn cl) <> None -> c_key c'' <> None))) ->
  TInv (supd cid (fun _ => c'') (s <| s_rand := rnd |>)) /\
  kmono s (supd cid (fun _ => c'') (s <| s_rand := rnd |>)).
Proof.
  intros I T P Ec H. set (s0 := s <| s_rand := rnd |>).
  assert (U : forall z, In z (pooled s) -> cl_id z = cid -> z = cl).
  { intros z Iz Ez. eapply pooled_unique; eauto. congruence. }
  destruct H as [S|(Tz & Fr & Tk & Sv & Km)].
  - assert (L : le s (supd cid (fun _ => c'') s0)).
    { apply (le_supd_same s0). intros z Iz Ez. rewrite (U z Iz Ez). exact S. }
    split; [eapply TInv_le; eauto|apply le_kmono; auto].
  - destruct T as (T1 & T2 & T3).
    assert (M : forall y, In y (pooled (supd cid (fun _ => c'') s0)) ->
                exists z, In z (pooled s) /\ cl_id y = cl_id z /\
                          ((cl_id z <> cid /\ y = z) \/ (z = cl /\ cl_conn y = c''))).
    { intros y Iy. rewrite pooled_supd in Iy. apply in_pmap_id in Iy.
      destruct Iy as (z & Iz & Ei & _ & [[N ->]|[E C]]); exists z; repeat split; auto. }
    assert (Used : forall z, In z (pooled s) -> ctok z <> t).
    { intros z Iz E. apply Fr. rewrite tokens_in_use_pooled, <- E. apply in_map; auto. }
    split; [split; [|split]|].
    + intros y Iy. destruct (M y Iy) as (z & Iz & _ & [[_ ->]|[-> C]]); auto.
      unfold ctok, ckey. rewrite C. split; auto. intros _. congruence.
    + intros y Iy. rewrite conns_supd in Iy. apply in_pmap_id in Iy.
      destruct Iy as (z & Iz & _ & _ & [[_ ->]|[E C]]); auto.
      unfold ckey. rewrite C. rewrite (U z (in_pooled_conns _ _ Iz) E) in Iz. apply Km. apply (T2 cl Iz).
    + intros y1 y2 I1 I2 N Z1.
      destruct (M y1 I1) as (z1 & J1 & E1 & [[N1 ->]|[-> C1]]);
      destruct (M y2 I2) as (z2 & J2 & E2 & [[N2 ->]|[-> C2]]).
      * apply T3; auto.
      * unfold ctok at 2. rewrite C2, Tk. apply Used; auto.
      * unfold ctok at 1. rewrite C1, Tk. intros E. apply (Used z2 J2). auto.
      * congruence.
    + intros y Iy. destruct (M y Iy) as (z & Iz & Ei & [[_ ->]|[-> C]]).
      * exists z. auto.
      * exists cl. split; auto. split; auto. unfold ckey at 2. rewrite C. exact Km.
Qed.

Lemma srv_msg_T h e s cid now m x s' o r phi :
  srv_msg h e s cid now m x = (s', o, r) -> Inv s phi -> TInv s ->
  (forall cl, In cl (pooled s) -> cl_id cl = cid -> ckey cl <> None \/ w_type m <> CHALLENGE_RESP) ->
  TInv s' /\ kmono s s'.
Proof.
  unfold srv_msg. cbv zeta. destruct (sfind cid s) as [cl|] eqn:F.
  2:{ intros [= <- <- <-] _ T _. split; [auto|apply kmono_refl]. }
  apply sfind_in in F. destruct F as [Ec Mem].
  assert (Pcl : In cl (pooled s)) by (apply in_app_iff; tauto).
  match goal with |- context [match (if ?b then ?u else ?v) with _ => _ end] =>
    set (draws := b); destruct (if draws then u else v) as [[t rand']|] eqn:Tk end.
  2:{ intros [= <- <- <-] _ T _. split.
      - eapply TInv_le; [|exact T]. apply le_incl; cbn; apply incl_refl.
      - apply le_kmono. apply le_incl; cbn; apply incl_refl. }
  destruct (recv_msgs _ _ _ _) as [c' outs] eqn:R.
  intros H I T Pre.
  pose proof T as (T1 & T2 & T3). destruct (T1 cl Pcl) as [Sv KT].
  match type of H with context [supd cid (fun _ => ?cc) _] => set (c'' := cc) in * end.
  (* what the object becomes *)
  assert (Eff : same (cl_conn cl) c'' \/
                (t <> 0 /\ ~ In t (tokens_in_use s) /\ c_token c'' = t /\ c_server c'' = true /\
                 (c_key (cl_conn cl) <> None -> c_key c'' <> None))).
  { pose proof (recv_one_tks _ _ _ _ _ _ Sv R) as [S|(Ty & [bf B] & Pz & Vo & Sv' & Tk' & Ky)].
    - (* the message left key/role/token alone: only the ecdh failure branch writes the token *)
      unfold c''. destruct (draws && negb (x_ecdh x =? 0)) eqn:EF.
      + right. apply andb_true_iff in EF. destruct EF as [Dr _]. rewrite Dr in Tk.
        apply C10_token_fresh_proof in Tk. destruct Tk as (A & B & _).
        destruct S as (K & Sr & _). cbn. repeat split; auto; congruence.
      + left. exact S.
    - cbn [o_parse o_version_ok o_token] in Pz, Vo, Tk'.
      destruct (draws && negb (x_ecdh x =? 0)) eqn:EF.
      { exfalso. apply andb_true_iff in EF. destruct EF as [_ EF]. lia. }
      assert (Dr : draws = true).
      { unfold draws. rewrite Ty, B, Pz, Vo. reflexivity. }
      rewrite Dr in Tk. apply C10_token_fresh_proof in Tk. destruct Tk as (A & B' & _).
      right. unfold c''. repeat split; auto. }
  match type of H with context [supd cid ?f ?s0] => set (s1 := supd cid f s0) in * end.
  destruct (settok_T s phi cid cl c'' t rand' I T Pcl Ec Eff) as [T1' K1]. fold s1 in T1', K1.
  destruct (has_connect outs) eqn:HC.
  - destruct (on_connect h e s1 cid) as [s2 o2] eqn:OC. injection H as <- <- <-.
    assert (L : le s1 s2).
    { eapply on_connect_le; eauto. intros y Iy Ey.
      (* a connect means a CHALLENGE_RESP: no token was drawn, the object kept its key *)
      apply recv_one_connect in R; auto. destruct R as (Ty & _).
      unfold s1 in Iy. rewrite pooled_supd in Iy. apply in_pmap_id in Iy.
      destruct Iy as (z & Iz & Ei & _ & [[N ->]|[E C]]); [congruence|].
      assert (z = cl) by (eapply pooled_unique; eauto; congruence). subst z.
      assert (Dr : draws = false) by (unfold draws; rewrite Ty; reflexivity).
      unfold ckey. rewrite C. unfold c''. rewrite Dr. cbn [andb].
      destruct (Pre cl Pcl Ec) as [K|K]; [|congruence].
      destruct Eff as [S|(_ & _ & _ & _ & Km)].
      + unfold c'' in S. rewrite Dr in S. cbn [andb] in S. destruct S as (Ke & _). unfold ckey in K. congruence.
      + unfold c'' in Km. rewrite Dr in Km. cbn [andb] in Km. apply Km. exact K. }
    split; [eapply TInv_le; eauto|]. eapply kmono_trans; [exact K1|apply le_kmono; auto].
  - injection H as <- <- <-. auto.
Qed.

Definition Pre (s : srv) (cid : Z) (ms : list wmsg) : Prop :=
  forall cl, In cl (pooled s) -> cl_id cl = cid -> ckey cl <> None \/ no_chal ms.

Lemma srv_msgs_T h e cid now ms : forall s xs s' o r phi,
  srv_msgs h e s cid now ms xs = (s', o, r) -> Inv s phi -> TInv s -> Pre s cid ms -> TInv s'.
Proof.
  induction ms as [|m rest IH]; cbn [srv_msgs]; intros s xs s' o r phi.
  - intros [= <- <- <-]. auto.
  - destruct (srv_msg h e s cid now m (hd no_hsx xs)) as [[s1 o1] r1] eqn:M.
    intros H I T P.
    assert (P1 : forall cl, In cl (pooled s) -> cl_id cl = cid -> ckey cl <> None \/ w_type m <> CHALLENGE_RESP).
    { intros cl A B. destruct (P cl A B) as [K|N]; auto. right. inversion N; auto. }
    destruct (srv_msg_T _ _ _ _ _ _ _ _ _ _ _ M I T P1) as [T1 K1].
    destruct r1. { injection H as <- <- <-. auto. }
    destruct (srv_msgs h e s1 cid now rest _) as [[s2 o2] r2] eqn:R. injection H as <- <- <-.
    pose proof (srv_msg_inv _ _ _ _ _ _ _ _ _ _ _ M I) as (I1 & _).
    eapply IH; eauto.
    intros y Iy Ey. destruct (K1 y Iy) as (z & Iz & Ez & Kz).
    destruct (P z Iz) as [K|N]; [congruence|auto|]. right. inversion N; auto.
Qed.

Lemma srv_recv_T h e s cid now d xs s' o r phi :
  srv_recv h e s cid now d xs = (s', o, r) -> Inv s phi -> TInv s -> TInv s'.
Proof.
  unfold srv_recv. cbv zeta. destruct (sfind cid s) as [cl|] eqn:F.
  2:{ intros [= <- <- <-]. auto. }
  apply sfind_in in F. destruct F as [Ec Mem].
  assert (Pcl : In cl (pooled s)) by (apply in_app_iff; tauto).
  assert (DR : TInv s -> TInv (supd cid (fun c => c <| c_dropped := c_dropped c + 1 |>) s)).
  { apply TInv_le. apply le_supd_same. intros z _ _. repeat split. }
  destruct (keyless_refuses _ _) eqn:KR. { intros [= <- <- <-] _. apply DR. }
  destruct (open_dgram _ _) as [ms|er] eqn:OD. 2:{ intros [= <- <- <-] _. apply DR. }
  destruct (bf_insert _ _) as [bf|er2]. 2:{ intros [= <- <- <-] _. apply DR. }
  match goal with |- context [handle_ack_bits ?c0 ?hd] =>
    destruct (handle_ack_bits_same c0 hd) as [[S1 _] _]; destruct (handle_ack_bits c0 hd) as [c1 o1] end.
  cbn [fst] in S1.
  assert (S : same (cl_conn cl) c1). { destruct S1 as (A & B & C). cbn in A, B, C. repeat split; auto. }
  destruct (srv_msgs _ _ _ _ _ _ _) as [[s2 o2] r2] eqn:M. intros [= <- <- <-] I T.
  assert (U : forall z, In z (pooled s) -> cl_id z = cid -> z = cl).
  { intros z Iz Ez. eapply pooled_unique; eauto. congruence. }
  eapply srv_msgs_T; [exact M| | |].
  - eapply Inv_frame; [apply supd_frame|exact I].
  - eapply TInv_le; [|exact T]. apply le_supd_same. intros z Iz Ez. rewrite (U z Iz Ez). exact S.
  - intros y Iy Ey. rewrite pooled_supd in Iy. apply in_pmap_id in Iy.
    destruct Iy as (z & Iz & Ei & _ & [[N ->]|[E C]]); [congruence|].
    rewrite (U z Iz E) in *. unfold ckey. rewrite C. destruct S as (K & _). rewrite K.
    destruct (c_key (cl_conn cl)) as [k|] eqn:Kc; [left; discriminate|right].
    unfold keyless_refuses in KR. rewrite Kc in KR. cbn in KR.
    eapply keyless_single_hello; eauto.
Qed.

Lemma deliver_msgs_le h e cid q : forall s s' o, deliver_msgs h e s cid q = (s', o) -> le s s'.
Proof.
  induction q as [|[ms p] rest IH]; cbn [deliver_msgs]; intros s s' o.
  - intros [= <- <-]. apply le_refl.
  - destruct (call_handler h e s (HMessage cid ms p)) as [s1 o1] eqn:C.
    destruct (deliver_msgs h e s1 cid rest) as [s2 o2] eqn:R. intros [= <- <-].
    eapply le_trans; [eapply call_handler_le; eauto|eapply IH; eauto].
Qed.
Lemma deliver_le h e s cid s' o : deliver h e s cid = (s', o) -> le s s'.
Proof.
  unfold deliver. destruct (sfind cid s). 2:{ intros [= <- <-]. apply le_refl. }
  destruct (deliver_msgs _ _ _ _ _) as [s1 o1] eqn:D. intros [= <- <-].
  eapply le_trans; [eapply deliver_msgs_le; eauto|]. apply le_supd_same. intros z _ _. repeat split.
Qed.

(* a new connection object: no key, token 0 *)
Lemma TInv_add s s' cl :
  TInv s -> ctok cl = 0 -> ckey cl = None -> c_server (cl_conn cl) = true ->
  incl (s_conns s') (s_conns s) -> (forall y, In y (s_temp s') -> y = cl \/ In y (s_temp s)) -> TInv s'.
Proof.
  intros (T1 & T2 & T3) Z K Sv C Tm.
  assert (M : forall y, In y (pooled s') -> y = cl \/ In y (pooled s)).
  { intros y I. apply in_app_iff in I. destruct I as [I|I].
    - right. apply in_pooled_conns. auto.
    - destruct (Tm y I); auto. right. apply in_pooled_temp. auto. }
  split; [|split].
  - intros y I. destruct (M y I) as [->|J]; [split; [auto|congruence]|auto].
  - intros y I. apply T2. auto.
  - intros y1 y2 I1 I2 N Z1. destruct (M y1 I1) as [->|J1]; [congruence|].
    destruct (M y2 I2) as [->|J2]; [congruence|]. apply T3; auto.
Qed.

Lemma disp_item_T h e s now a d xs s' o phi :
  disp_item h e s now a d xs = (s', o) -> Inv s phi -> TInv s -> TInv s'.
Proof.
  unfold disp_item. destruct (pget a (s_conns s)) as [cl|] eqn:PC.
  - destruct (srv_recv _ _ _ _ _ _ _) as [[s1 o1] r1] eqn:R.
    intros H I T. pose proof (srv_recv_T _ _ _ _ _ _ _ _ _ _ _ R I T) as T1.
    destruct (s_dead s1). { injection H as <- <-. auto. }
    destruct r1. { injection H as <- <-. auto. }
    destruct (deliver h e s1 (cl_id cl)) as [s2 o2] eqn:D. injection H as <- <-.
    eapply TInv_le; [eapply deliver_le; eauto|auto].
  - destruct (pget a (s_temp s)) as [cl|] eqn:PT.
    + destruct (negb _). { intros [= <- <-]. auto. }
      destruct (srv_recv _ _ _ _ _ _ _) as [[s1 o1] r1] eqn:R.
      intros H I T. pose proof (srv_recv_T _ _ _ _ _ _ _ _ _ _ _ R I T) as T1.
      destruct (s_dead s1); injection H as <- <-; auto.
    + destruct (negb _). { intros [= <- <-]. auto. }
      match goal with |- context [srv_recv h e ?s0 _ _ _ _] => set (s1 := s0) end.
      destruct (srv_recv _ _ _ _ _ _ _) as [[s2 o2] r2] eqn:R.
      intros H I T.
      assert (I1 : Inv s1 phi).
      { unfold Inv, s1; simpl. rewrite pset_fresh, shape_app; auto. simpl. apply Inv'_new; auto.
        rewrite <- shape_app, shape_addrs, map_app. intros X. apply in_app_iff in X.
        destruct X as [X|X]; [apply pget_none in PT|apply pget_none in PC]; contradiction. }
      assert (T1 : TInv s1).
      { eapply TInv_add with (cl := {| cl_id := s_next_id s; cl_addr := a; cl_conn := new_conn (s_cfg s) |});
          [exact T|reflexivity|reflexivity|reflexivity|unfold s1; cbn; apply incl_refl|].
        unfold s1; cbn. intros y Iy. apply in_pset in Iy. auto. }
      pose proof (srv_recv_T _ _ _ _ _ _ _ _ _ _ _ R I1 T1) as T2.
      destruct (s_dead s2); injection H as <- <-; auto.
Qed.

Lemma disp_all_T h e now q : forall s s' o phi,
  disp_all h e s now q = (s', o) -> Inv s phi -> TInv s -> TInv s'.
Proof.
  induction q as [|it rest IH]; cbn [disp_all]; intros s s' o phi.
  - intros [= <- <-]. auto.
  - destruct (s_dead s). { intros [= <- <-]. auto. }
    destruct (match gate (s_block s) it with Some _ => _ | None => _ end) as [s1 o1] eqn:G.
    destruct (disp_all h e s1 now rest) as [s2 o2] eqn:R. intros [= <- <-] I T.
    destruct (gate (s_block s) it) as [[[a d] xs]|].
    + pose proof (disp_item_inv _ _ _ _ _ _ _ _ _ _ G I) as (I1 & _).
      eapply IH; eauto. eapply disp_item_T; eauto.
    + injection G as <- <-. eapply IH; eauto.
Qed.

Lemma srv_du_T h e s i s' o phi : srv_du h e s i = (s', o) -> Inv s phi -> TInv s -> TInv s'.
Proof.
  unfold srv_du. destruct (disp_all _ _ _ _ _) as [s1 o1] eqn:D. intros H I T.
  assert (T1 : TInv s1).
  { eapply disp_all_T; [exact D| |].
    - eapply Inv_frame; [apply frame_rand|exact I].
    - eapply TInv_le; [|exact T]. apply le_incl; cbn; apply incl_refl. }
  destruct (s_dead s1). { injection H as <- <-. auto. }
  destruct (call_handler h e s1 HUpdate) as [s2 o2] eqn:C. injection H as <- <-.
  eapply TInv_le; [eapply call_handler_le; eauto|auto].
Qed.

(* ---------- S phase: objects only leave the pools ---------- *)
Lemma tick_client_le e s cl now s' o p r phi :
  tick_client e s cl now = (s', o, p, r) -> Inv s phi -> In cl (pooled s) -> le s s'.
Proof.
  unfold tick_client. pose proof (same_server_tick e (cl_conn cl) now) as S.
  destruct (server_tick _ _ _) as [c' o']. cbn [fst] in S. intros [= <- <- <- <-] I P.
  apply le_supd_same. intros z Iz Ez. assert (z = cl) by (eapply pooled_unique; eauto). subst. exact S.
Qed.

Lemma sweep_conn_le h e s now cid s' o p phi :
  sweep_conn h e s now cid = (s', o, p) -> Inv s phi -> le s s'.
Proof.
  unfold sweep_conn. destruct (pfind cid (s_conns s)) as [cl0|] eqn:P0.
  2:{ intros [= <- <- <-] _. apply le_refl. }
  match goal with |- context [pfind cid (s_conns ?x)] =>
    match x with s => fail 1 | _ => set (sa := x) end end.
  assert (Fa : frame s sa). { unfold sa. destruct (status_eqb _ _); [apply supd_frame|apply frame_refl]. }
  assert (La : le s sa).
  { unfold sa. destruct (status_eqb _ _); [|apply le_refl]. apply le_supd_same. intros z _ _. apply same_disconnect. }
  destruct (pfind cid (s_conns sa)) as [cl|] eqn:P1.
  2:{ intros [= <- <- <-] _. auto. }
  destruct (_ || _).
  - destruct (call_handler h e sa (HDisconnect cid)) as [s1 o1] eqn:C.
    pose proof (call_handler_le _ _ _ _ _ _ C) as L1.
    apply call_handler_spec in C. destruct C as [F1 _].
    destruct (pfind cid (s_conns s1)) as [cl1|] eqn:P2.
    + destruct (tick_client e s1 cl1 now) as [[[s2 o2] snd_] r2] eqn:Tk. intros [= <- <- <-] I.
      assert (I1 : Inv s1 phi) by (eapply Inv_frame; [exact (frame_trans _ _ _ Fa F1)|exact I]).
      apply pfind_in in P2. destruct P2 as [P2 _].
      pose proof (tick_client_le _ _ _ _ _ _ _ _ _ Tk I1 (in_pooled_conns _ _ P2)) as L2.
      eapply le_trans; [exact La|]. eapply le_trans; [exact L1|]. eapply le_trans; [exact L2|].
      apply le_incl; cbn; [|apply incl_refl]. intros y Iy. eapply in_pdel; eauto.
    + intros [= <- <- <-] _. eapply le_trans; eauto.
  - destruct (tick_client e sa cl now) as [[[s2 o2] snd_] r2] eqn:Tk. intros [= <- <- <-] I.
    assert (Ia : Inv sa phi) by (eapply Inv_frame; eauto).
    apply pfind_in in P1. destruct P1 as [P1 _].
    eapply le_trans; [exact La|]. eapply tick_client_le; eauto. apply in_pooled_conns; auto.
Qed.

Lemma sweep_temp_le e s now cid s' o p phi :
  sweep_temp e s now cid = (s', o, p) -> Inv s phi -> le s s'.
Proof.
  unfold sweep_temp. destruct (pfind cid (s_temp s)) as [cl|] eqn:P0.
  2:{ intros [= <- <- <-] _. apply le_refl. }
  destruct (_ || _).
  - intros [= <- <- <-] _. apply le_incl; cbn; [apply incl_refl|]. intros y Iy. eapply in_pdel; eauto.
  - destruct (tick_client e s cl now) as [[[s2 o2] snd_] r2] eqn:Tk. intros [= <- <- <-] I.
    apply pfind_in in P0. destruct P0 as [P0 _]. eapply tick_client_le; eauto. apply in_pooled_temp; auto.
Qed.

Lemma sweep_list_le (f : srv -> Z -> srv * list sout * list pending) :
  (forall s cid s' o p phi, f s cid = (s', o, p) -> Inv s phi -> SInv s s' o phi) ->
  (forall s cid s' o p phi, f s cid = (s', o, p) -> Inv s phi -> le s s') ->
  forall ids s s' o p phi, sweep_list f s ids = (s', o, p) -> Inv s phi -> le s s'.
Proof.
  intros Hi Hl. induction ids as [|cid r IH]; cbn [sweep_list]; intros s s' o p phi.
  - intros [= <- <- <-] _. apply le_refl.
  - destruct (f s cid) as [[s1 o1] p1] eqn:F1. destruct (sweep_list f s1 r) as [[s2 o2] p2] eqn:F2.
    intros [= <- <- <-] I. pose proof (Hi _ _ _ _ _ _ F1 I) as (I1 & _).
    eapply le_trans; [eapply Hl; eauto|eapply IH; eauto].
Qed.

Lemma shutdown_list_le h e ids : forall s s' o, shutdown_list h e s ids = (s', o) -> le s s'.
Proof.
  induction ids as [|cid r IH]; cbn [shutdown_list]; intros s s' o.
  - intros [= <- <-]. apply le_refl.
  - destruct (pfind cid (s_conns s)) as [cl|]. 2:{ apply IH. }
    destruct (call_handler h e s (HDisconnect cid)) as [s1 o1] eqn:C.
    match goal with |- context [shutdown_list h e ?x r] => set (sb := x) end.
    destruct (shutdown_list h e sb r) as [s2 o2] eqn:R. intros [= <- <-].
    eapply le_trans; [eapply call_handler_le; eauto|]. eapply le_trans; [|eapply IH; eauto].
    unfold sb. apply le_incl; cbn; [|apply incl_refl]. intros y Iy. eapply in_pdel; eauto.
Qed.

Lemma srv_shutdown_le h e s s' o : srv_shutdown h e s = (s', o) -> le s s'.
Proof.
  unfold srv_shutdown. destruct (shutdown_list _ _ _ _) as [s1 o1] eqn:L.
  destruct (call_handler h e s1 HShutdown) as [s2 o2] eqn:C. intros [= <- <-].
  eapply le_trans; [eapply shutdown_list_le; eauto|]. eapply le_trans; [eapply call_handler_le; eauto|].
  apply le_incl; cbn; apply incl_refl.
Qed.

Lemma srv_sx_le h e s i s' o phi : srv_sx h e s i = (s', o) -> Inv s phi -> le s s'.
Proof.
  unfold srv_sx.
  destruct (sweep_list _ s _) as [[s3 o3] p3] eqn:S3.
  destruct (sweep_list _ s3 _) as [[s4 o4] p4] eqn:S4. intros H I.
  assert (I3 : SInv s s3 o3 phi).
  { eapply sweep_list_inv; [|exact S3|exact I]. intros ? ? ? ? ? ? H0 H1; cbv beta in H0; eapply sweep_conn_inv; eauto. }
  assert (L3 : le s s3).
  { eapply sweep_list_le; [| |exact S3|exact I].
    - intros ? ? ? ? ? ? H0 H1; cbv beta in H0; eapply sweep_conn_inv; eauto.
    - intros ? ? ? ? ? ? H0 H1; cbv beta in H0; eapply sweep_conn_le; eauto. }
  assert (L4 : le s3 s4).
  { eapply sweep_list_le; [| |exact S4|apply I3].
    - intros ? ? ? ? ? ? H0 H1; cbv beta in H0; eapply sweep_temp_inv; eauto.
    - intros ? ? ? ? ? ? H0 H1; cbv beta in H0; eapply sweep_temp_le; eauto. }
  destruct (i_stop i).
  - destruct (srv_shutdown h e s4) as [s6 o6] eqn:X. injection H as <- <-.
    eapply le_trans; [exact L3|]. eapply le_trans; [exact L4|]. eapply srv_shutdown_le; eauto.
  - injection H as <- <-. eapply le_trans; eauto.
Qed.

Lemma srv_step_T h e s i s' o phi : srv_step h e s i = (s', o) -> Inv s phi -> TInv s -> TInv s'.
Proof.
  unfold srv_step. destruct (negb (s_active s) || s_dead s). { intros [= <- <-]. auto. }
  destruct (srv_du h e s i) as [s2 o2] eqn:DU. intros H I T.
  pose proof (srv_du_inv _ _ _ _ _ _ _ DU I) as (I2 & _).
  pose proof (srv_du_T _ _ _ _ _ _ _ DU I T) as T2.
  destruct (s_dead s2). { injection H as <- <-. auto. }
  destruct (srv_sx h e s2 i) as [s6 o6] eqn:SX. injection H as <- <-.
  eapply TInv_le; [eapply srv_sx_le; eauto|auto].
Qed.

Theorem C10_token_invariant_step_proof : forall h e s i phi,
  Inv s phi -> TInv s -> TInv (fst (srv_step h e s i)).
Proof.
  intros h e s i phi I T. destruct (srv_step h e s i) as [s' o] eqn:S. exact (srv_step_T _ _ _ _ _ _ _ S I T).
Qed.

Lemma srv_run_T h e is : forall s s' o phi,
  srv_run h e s is = (s', o) -> Inv s phi -> TInv s -> TInv s'.
Proof.
  induction is as [|i r IH]; cbn [srv_run]; intros s s' o phi.
  - intros [= <- <-]. auto.
  - destruct (srv_step h e s i) as [s1 o1] eqn:S1. destruct (srv_run h e s1 r) as [s2 o2] eqn:R.
    intros [= <- <-] I T. destruct (srv_step_inv _ _ _ _ _ _ _ S1 I) as [I1 _].
    eapply IH; eauto. eapply srv_step_T; eauto.
Qed.

Lemma TInv_srv0 g bl : TInv (srv0 g bl).
Proof. split; [|split]; cbn; intros; tauto. Qed.

Lemma srv_life_T h e g bl is s o : srv_life h e g bl is = (s, o) -> TInv s.
Proof.
  unfold srv_life, srv_start. destruct (call_handler _ _ _ _) as [s0 o0] eqn:C.
  destruct (srv_run h e s0 is) as [s1 o1] eqn:R. intros [= <- <-].
  pose proof (call_handler_le _ _ _ _ _ _ C) as L0.
  apply call_handler_spec in C. destruct C as [F _].
  eapply srv_run_T; [exact R| |].
  - eapply Inv_frame; [exact F|apply Inv_srv0].
  - eapply TInv_le; [exact L0|apply TInv_srv0].
Qed.

(* ---------- the statements used in Properties/C10.v ---------- *)
Definition nonzero (t : Z) : bool := negb (t =? 0).

Lemma nodup_tokens l :
  NoDup (map cl_id l) ->
  (forall a b, In a l -> In b l -> cl_id a <> cl_id b -> ctok a <> 0 -> ctok a <> ctok b) ->
  NoDup (filter nonzero (map ctok l)).
Proof.
  induction l as [|a r IH]; cbn [map filter]; intros N H; [constructor|].
  inversion N as [|? ? N1 N2]; subst.
  assert (IHr : NoDup (filter nonzero (map ctok r))).
  { apply IH; auto. intros x y Ix Iy. apply H; simpl; auto. }
  destruct (nonzero (ctok a)) eqn:Z; auto. constructor; auto.
  intros I. apply filter_In in I. destruct I as [I _]. apply in_map_iff in I. destruct I as (b & E & Ib).
  apply (H a b); simpl; auto.
  - intros X. apply N1. rewrite X. apply in_map; auto.
  - unfold nonzero in Z. lia.
Qed.

Lemma pooled_nodup_ids s phi : Inv s phi -> NoDup (map cl_id (pooled s)).
Proof.
  intros I. apply Inv_nodup_ids in I. eapply Permutation_NoDup; [|exact I].
  apply Permutation_map. apply Permutation_app_comm.
Qed.

(* every reachable state: starting(), then any list of iterations *)
Theorem C10_tokens_distinct_proof : forall h e g bl ins,
  let s := fst (srv_life h e g bl ins) in
  NoDup (map cl_id (s_conns s ++ s_temp s)) /\
  NoDup (filter nonzero (tokens_in_use s)) /\
  (forall cl1 cl2, In cl1 (s_conns s ++ s_temp s) -> In cl2 (s_conns s ++ s_temp s) ->
     cl_id cl1 <> cl_id cl2 -> c_token (cl_conn cl1) <> 0 -> c_token (cl_conn cl1) <> c_token (cl_conn cl2)).
Proof.
  intros. subst s. destruct (srv_life h e g bl ins) as [s o] eqn:L. cbn [fst].
  destruct (srv_life_inv _ _ _ _ _ _ _ L) as [I _]. pose proof (srv_life_T _ _ _ _ _ _ _ L) as (T1 & T2 & T3).
  pose proof (pooled_nodup_ids _ _ I) as N. split; [exact N|]. split; [|exact T3].
  rewrite tokens_in_use_pooled. apply nodup_tokens; auto.
Qed.

Theorem C10_connected_have_token_proof : forall h e g bl ins cl,
  In cl (s_conns (fst (srv_life h e g bl ins))) ->
  c_token (cl_conn cl) <> 0 /\ c_key (cl_conn cl) <> None /\ c_server (cl_conn cl) = true.
Proof.
  intros h e g bl ins cl. destruct (srv_life h e g bl ins) as [s o] eqn:L. cbn [fst]. intros I.
  pose proof (srv_life_T _ _ _ _ _ _ _ L) as (T1 & T2 & T3).
  destruct (T1 cl (in_pooled_conns _ _ I)) as [Sv K]. pose proof (T2 cl I) as Ky. split; [exact (K Ky)|split; [exact Ky|exact Sv]].
Qed.

Lemma nodup_filter_all {A} (p : A -> bool) l : (forall x, In x l -> p x = true) -> filter p l = l.
Proof.
  induction l as [|a r IH]; simpl; intros H; auto. rewrite (H a) by auto. rewrite IH; auto.
Qed.

(* simultaneously connected clients carry distinct (non-zero) tokens *)
Theorem C10_connected_tokens_distinct_proof : forall h e g bl ins,
  let s := fst (srv_life h e g bl ins) in
  NoDup (map (fun cl => c_token (cl_conn cl)) (s_conns s)) /\
  Forall (fun cl => c_token (cl_conn cl) <> 0) (s_conns s).
Proof.
  intros. subst s. pose proof (C10_tokens_distinct_proof h e g bl ins) as (_ & N & _).
  pose proof (C10_connected_have_token_proof h e g bl ins) as K.
  destruct (srv_life h e g bl ins) as [s o]. cbn [fst] in *.
  assert (F : Forall (fun cl => c_token (cl_conn cl) <> 0) (s_conns s)).
  { apply Forall_forall. intros cl I. apply K; auto. }
  split; auto.
  unfold tokens_in_use in N. rewrite map_app, filter_app in N. apply nodup_app_iff in N. destruct N as (N & _).
  rewrite nodup_filter_all in N; auto.
  intros x Ix. apply in_map_iff in Ix. destruct Ix as (cl & <- & Icl). rewrite Forall_forall in F.
  specialize (F cl Icl). unfold nonzero. lia.
Qed.
