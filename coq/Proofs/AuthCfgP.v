(* AuthCfgP.v — C19 for every configuration of Auth.SALT_LENGTH / Auth.DIGEST_LENGTH and every history of
   calls: verify_password reads the parameters from the string, so a hash made under ANY setting verifies
   (and refuses other passwords) under any later setting. *)
From Coq Require Import Lia ZifyBool PeanoNat.
From Model Require Import Base Base64 Auth AuthCfg.
From Proofs Require Import Base64P AuthP C19P.
Open Scope Z_scope.

Section AuthCfgP.
  Variable sha : list byte -> list byte.
  Variable b64d : list byte -> res (list byte).
  Variable kdf : list byte -> Z -> Z -> Z -> Z -> list byte -> res (list byte).

  Notation hashc := (hash_password_cfg sha kdf).
  Notation verify := (verify_password sha b64d kdf).
  Definition cfg_digest (c : cfg) (salt p : list byte) : res (list byte) :=
    kdf salt (c_dl c) (k_N std_params) (k_r std_params) (k_p std_params) (sha p).

  Lemma header_cfg_app : forall c d, header_cfg c ++ d = hash_string (b64e (pack_params (cfg_params c))) d.
  Proof. intros c d. unfold header_cfg, hash_string. repeat rewrite <- app_assoc. reflexivity. Qed.

  Lemma default_is_hash_password : forall pw salt,
    hashc default_cfg pw salt = hash_password sha kdf pw salt.
  Proof. intros [p|e|] salt; reflexivity. Qed.

  Lemma hashc_ok_inv : forall c pw salt h, hashc c pw salt = Ok h ->
    exists p out, pw = PBytes p /\ byte_rng (c_sl c) = true /\ byte_rng (c_dl c) = true /\
                  cfg_digest c salt p = Ok out /\
                  h = hash_string (b64e (pack_params (cfg_params c))) (b64e (salt ++ out)).
  Proof.
    intros c pw salt h H. destruct pw as [p|e|]; [|cbn in H; discriminate H ..]. unfold hash_password_cfg in H.
    destruct (byte_rng (c_sl c)) eqn:R1; [|discriminate]. destruct (byte_rng (c_dl c)) eqn:R2; [|discriminate].
    cbn [andb] in H. unfold cfg_digest.
    destruct (kdf salt (c_dl c) (k_N std_params) (k_r std_params) (k_p std_params) (sha p)) as [out|] eqn:E;
      cbn [bind] in H; [|discriminate].
    exists p, out. rewrite header_cfg_app in H. inversion H. auto.
  Qed.

  Lemma cfg_in_range : forall c, byte_rng (c_sl c) = true -> byte_rng (c_dl c) = true -> params_in_range (cfg_params c).
  Proof.
    intros c H1 H2. unfold byte_rng in *. unfold params_in_range, cfg_params; cbn. lia.
  Qed.

  Lemma verify_hashc : b64_roundtrip b64d -> kdf_length kdf ->
    forall c p q salt h, len salt = c_sl c -> 1 <= c_dl c -> hashc c (PBytes p) salt = Ok h ->
    exists out, cfg_digest c salt p = Ok out /\
      verify (PBytes q) (PStr (Ok h)) = (do d <- cfg_digest c salt q; Ok (bytes_eqb d out)).
  Proof.
    intros HB HK c p q salt h Hs Hd H. destruct (hashc_ok_inv _ _ _ _ H) as [p' [out [E [R1 [R2 [Ho ->]]]]]].
    inversion E; subst p'. exists out. split; [exact Ho|].
    assert (Lo : len out = c_dl c) by (eapply HK; exact Ho).
    rewrite (C19_verify_wellformed_proof sha b64d kdf HB q (cfg_params c) salt out (cfg_in_range c R1 R2));
      cbn [cfg_params k_sl k_len k_N k_r k_p]; try reflexivity; lia.
  Qed.

  (* 1. the right password verifies, whatever the settings were when the hash was made *)
  Theorem C19_cfg_verify_own_proof : b64_roundtrip b64d -> kdf_length kdf ->
    forall c pw salt h, len salt = c_sl c -> 1 <= c_dl c -> hashc c (PBytes pw) salt = Ok h ->
    verify (PBytes pw) (PStr (Ok h)) = Ok true.
  Proof.
    intros HB HK c pw salt h Hs Hd H. destruct (verify_hashc HB HK c pw pw salt h Hs Hd H) as [out [Ho ->]].
    rewrite Ho. cbn [bind]. rewrite bytes_eqb_refl. reflexivity.
  Qed.

  (* 2. another password is refused unless scrypt(sha256(.)) collides for the pair under that salt and length *)
  Theorem C19_cfg_verify_other_false_proof : b64_roundtrip b64d -> kdf_length kdf -> kdf_err_params kdf ->
    forall c p q salt h, len salt = c_sl c -> 1 <= c_dl c -> hashc c (PBytes p) salt = Ok h ->
    cfg_digest c salt q <> cfg_digest c salt p ->
    verify (PBytes q) (PStr (Ok h)) = Ok false.
  Proof.
    intros HB HK HE c p q salt h Hs Hd H Hc. destruct (verify_hashc HB HK c p q salt h Hs Hd H) as [out [Ho ->]].
    destruct (cfg_digest c salt q) as [d|e] eqn:Eq; cbn [bind].
    - rewrite bytes_eqb_neq; [reflexivity|]. intro G. apply Hc. congruence.
    - exfalso. unfold cfg_digest in *. rewrite (HE _ _ _ _ _ _ (sha p) _ Eq) in Ho. discriminate.
  Qed.

  (* 3. two hashes differ when the salts differ or the settings differ *)
  Theorem C19_cfg_fresh_differs_proof : b64_roundtrip b64d ->
    forall c1 c2 p1 p2 s1 s2 h1 h2, len s1 = c_sl c1 -> len s2 = c_sl c2 -> (c1 <> c2 \/ s1 <> s2) ->
    hashc c1 p1 s1 = Ok h1 -> hashc c2 p2 s2 = Ok h2 -> h1 <> h2.
  Proof.
    intros HB c1 c2 p1 p2 s1 s2 h1 h2 L1 L2 Hne H1 H2 E.
    destruct (hashc_ok_inv _ _ _ _ H1) as [q1 [o1 [_ [A1 [B1 [_ ->]]]]]].
    destruct (hashc_ok_inv _ _ _ _ H2) as [q2 [o2 [_ [A2 [B2 [_ G]]]]]]. rewrite G in E. clear G.
    assert (S1 := split_hash_string _ _ (b64e_no_colon (pack_params (cfg_params c1))) (b64e_no_colon (s1 ++ o1))).
    assert (S2 := split_hash_string _ _ (b64e_no_colon (pack_params (cfg_params c2))) (b64e_no_colon (s2 ++ o2))).
    rewrite E in S1. rewrite S1 in S2.
    assert (F2 : b64e (pack_params (cfg_params c1)) = b64e (pack_params (cfg_params c2)))
      by exact (f_equal (fun l => nth 2 l []) S2).
    assert (F3 : b64e (s1 ++ o1) = b64e (s2 ++ o2)) by exact (f_equal (fun l => nth 3 l []) S2).
    clear S1 S2.
    assert (P : Ok (pack_params (cfg_params c1)) = Ok (pack_params (cfg_params c2))) by (rewrite <- !HB; rewrite F2; reflexivity).
    assert (P' : pack_params (cfg_params c1) = pack_params (cfg_params c2)) by congruence.
    assert (K : Ok (cfg_params c1) = Ok (cfg_params c2)).
    { rewrite <- (unpack_pack _ (cfg_in_range c1 A1 B1)), <- (unpack_pack _ (cfg_in_range c2 A2 B2)), P'. reflexivity. }
    inversion K as [[K1 K2]].
    assert (C : c1 = c2) by (destruct c1, c2; cbn in *; congruence).
    destruct Hne as [Hne|Hne]; [exact (Hne C)|]. apply Hne.
    assert (X : Ok (s1 ++ o1) = Ok (s2 ++ o2)) by (rewrite <- !HB; rewrite F3; reflexivity).
    inversion X as [X'].
    assert (length s1 = length s2) by (unfold len in *; lia).
    destruct (firstn_skipn_app s1 o1 _ eq_refl) as [G1 _].
    destruct (firstn_skipn_app s2 o2 _ eq_refl) as [G2 _].
    rewrite <- G1, <- G2. rewrite X'. congruence.
  Qed.

  (* 4. histories: whatever was set and hashed before, every hash call of the process returns what a single
        call under the current settings returns, hence (1.) verifies *)
  Lemma trace_In : forall ops c0 c pw salt r,
    In (c, pw, salt, r) (trace sha kdf c0 ops) -> r = hashc c pw salt.
  Proof.
    induction ops as [|[c'|pw' salt'] ops IH]; intros c0 c pw salt r H; cbn in H.
    - destruct H.
    - eapply IH; exact H.
    - destruct H as [H|H]; [inversion H; reflexivity|eapply IH; exact H].
  Qed.

  Theorem C19_history_verify_own_proof : b64_roundtrip b64d -> kdf_length kdf ->
    forall c0 ops c pw salt h, In (c, PBytes pw, salt, Ok h) (trace sha kdf c0 ops) ->
    len salt = c_sl c -> 1 <= c_dl c ->
    verify (PBytes pw) (PStr (Ok h)) = Ok true.
  Proof.
    intros HB HK c0 ops c pw salt h H Hs Hd. apply trace_In in H.
    eapply C19_cfg_verify_own_proof; eauto.
  Qed.

  Theorem C19_history_distinct_proof : b64_roundtrip b64d ->
    forall c0 ops c1 c2 p1 p2 s1 s2 h1 h2,
    In (c1, p1, s1, Ok h1) (trace sha kdf c0 ops) -> In (c2, p2, s2, Ok h2) (trace sha kdf c0 ops) ->
    len s1 = c_sl c1 -> len s2 = c_sl c2 -> (c1 <> c2 \/ s1 <> s2) -> h1 <> h2.
  Proof.
    intros HB c0 ops c1 c2 p1 p2 s1 s2 h1 h2 H1 H2 L1 L2 Hne.
    apply trace_In in H1. apply trace_In in H2. symmetry in H1, H2.
    exact (C19_cfg_fresh_differs_proof HB c1 c2 p1 p2 s1 s2 h1 h2 L1 L2 Hne H1 H2).
  Qed.
End AuthCfgP.
