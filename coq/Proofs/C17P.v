(* C17P.v — proofs of the C17 statements. *)
From Coq Require Import Lia ZifyBool.
From Model Require Import Base PathJoin.
From Proofs Require Import Tac PathJoinP.
Open Scope Z_scope.

Lemma C17_contained_proof : forall cwd root name,
  starts_sl cwd = true ->
  match path_join_safe cwd root name with
  | Err e => e = EValue
  | Ok res => contained (abspath cwd (replace_bs root)) res
  end.
Proof.
  intros cwd root name Hcwd. unfold path_join_safe.
  destruct (existsb is_dotdot (split_sl (replace_bs name)) || existsb is_dot (split_sl (replace_bs name)));
    [reflexivity|].
  set (R := abspath cwd (replace_bs root)).
  set (res := abspath cwd (pjoin R (replace_bs name))).
  destruct (negb (str_eqb res R) && negb (starts_with (rstrip_sl R ++ [SL]) res)) eqn:E; [reflexivity|].
  destruct (abspath_props cwd (replace_bs root) Hcwd) as [HR1 HR2]. fold R in HR1, HR2.
  destruct (abspath_props cwd (pjoin R (replace_bs name)) Hcwd) as [Hr1 Hr2]. fold res in Hr1, Hr2.
  unfold contained. repeat split; try assumption; try (apply clean_no_dots; assumption).
  - apply andb_false_iff in E. destruct E as [E|E]; apply negb_false_iff in E.
    + apply str_eqb_eq in E. rewrite E. exists []. rewrite app_nil_r. reflexivity.
    + apply starts_with_spec in E. destruct E as [t E]. rewrite <- app_assoc in E. cbn [app] in E.
      exists (comps_of t). rewrite E, comps_of_app, comps_of_rstrip. reflexivity.
  - apply andb_false_iff in E. destruct E as [E|E]; apply negb_false_iff in E.
    + left. apply str_eqb_eq. assumption.
    + right. apply starts_with_spec in E. destruct E as [t E]. rewrite <- app_assoc in E. exists t. exact E.
Qed.

Lemma existsb_In_str (f : str -> bool) l x : In x l -> f x = true -> existsb f l = true.
Proof. intros. apply existsb_exists. exists x. split; assumption. Qed.

Lemma C17_rejects_dots_proof : forall cwd root name,
  In [DOT; DOT] (split_sl (replace_bs name)) \/ In [DOT] (split_sl (replace_bs name)) ->
  path_join_safe cwd root name = Err EValue.
Proof.
  intros cwd root name H. unfold path_join_safe.
  destruct H as [H|H].
  - rewrite (existsb_In_str is_dotdot _ _ H); reflexivity.
  - rewrite (existsb_In_str is_dot _ _ H), orb_true_r; reflexivity.
Qed.
