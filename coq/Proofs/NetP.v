(* NetP.v — the first two-endpoint theorem: for unfragmented traffic, under ANY schedule of loss,
   duplication, reordering, delay, replay and injection, every payload handed to B's application is
   byte-identical to a payload A's application passed to send().  (C06's "nothing is fabricated",
   composing the sender-side queue invariant, the codec round trip and the receiver.) *)
From Coq Require Import Lia ZifyBool.
From RecordUpdate Require Import RecordUpdate.
From Model Require Import Base SeqNum Wire Conn RecvSpec Net.
From Proofs Require Import Tac SeqNumP WireP ConnFrameP NonceP PackP ClearP AckP CallbackP CustodyP QueueP RecvP C01P.
Import RecordSetNotations.
Open Scope Z_scope.

(* P for a set S of payloads: an APP message carries a payload of S; there are no fragments *)
Definition PS (S : list (list byte)) (ty : ptype) (p : list byte) : Prop :=
  match ty with APP => In p S | APP_FRAGMENT => False | _ => True end.

Lemma PS_other S ty p : ty <> APP -> ty <> APP_FRAGMENT -> PS S ty p.
Proof. intros H1 H2. destruct ty; cbn; auto; contradiction. Qed.

Lemma PS_mono S S' ty p : (forall x, In x S -> In x S') -> PS S ty p -> PS S' ty p.
Proof. intros H. destruct ty; cbn; auto. Qed.

Lemma cbP_mono S S' k : (forall x, In x S -> In x S') -> cbP (PS S) k -> cbP (PS S') k.
Proof. intros H. destruct k; cbn; [auto|apply PS_mono; exact H]. Qed.

Lemma msgP_mono S S' m : (forall x, In x S -> In x S') -> msgP (PS S) m -> msgP (PS S') m.
Proof. intros H [A B]. split; [eapply PS_mono; eassumption|]. intros k Hk. eapply cbP_mono; [exact H|apply B; exact Hk]. Qed.

Lemma QI_mono S S' c : (forall x, In x S -> In x S') -> QI (PS S) c -> QI (PS S') c.
Proof.
  intros H [A B D]. constructor.
  - eapply Forall_impl; [|exact A]. intros m. apply msgP_mono. exact H.
  - eapply Forall_impl; [|exact B]. intros m. apply msgP_mono. exact H.
  - eapply Forall_impl; [|exact D]. intros x Hx. eapply Forall_impl; [|exact Hx]. intros k. apply cbP_mono. exact H.
Qed.

(* ---------- the sender: NU and QI through every event ---------- *)
Lemma disconnect_NQ S c k : NU c -> QI (PS S) c -> NU (disconnect c k) /\ QI (PS S) (disconnect c k).
Proof.
  intros HU HQ. unfold disconnect. destruct (_ || _).
  - set (c0 := c <| c_outgoing := [] |> <| c_incoming := [] |> <| c_pcbs := [] |> <| c_pretry := [] |> <| c_packs := [] |>).
    assert (U0 : NU c0) by (destruct HU as [A B D]; constructor; cbn; auto).
    assert (Q0 : QI (PS S) c0) by (destruct HQ as [A B D]; constructor; cbn; auto).
    split.
    + eapply NU_upd; [| | |apply (send_type_NU c0 DISCONNECT [] RNone k); [discriminate|exact U0]]; reflexivity.
    + eapply QI_upd; [| | |apply (send_type_QI (PS S) c0 DISCONNECT [] RNone k); [exact I|exact Q0]]; reflexivity.
  - split; [eapply NU_upd; [| | |exact HU]; reflexivity|eapply QI_upd; [| | |exact HQ]; reflexivity].
Qed.

Lemma recv_NU c now d orcs c' o : NU c -> recv c now d orcs = (c', o) -> NU c'.
Proof.
  unfold recv. intros HN E.
  destruct (keyless_refuses c (d_hdr d)); [injection E as <- <-; eapply NU_upd; [| | |exact HN]; reflexivity|].
  destruct (open_dgram (c_key c) d) as [ms|]; [|injection E as <- <-; eapply NU_upd; [| | |exact HN]; reflexivity].
  destruct (bf_insert (c_bf_pkt c) _) as [bf|]; [|injection E as <- <-; eapply NU_upd; [| | |exact HN]; reflexivity].
  match type of E with context [handle_ack_bits ?c0 _] => set (cc := c0) in E end.
  assert (Ncc : NU cc) by (eapply NU_upd; [| | |exact HN]; reflexivity).
  destruct (handle_ack_bits cc (d_hdr d)) as [c1 o1] eqn:E1.
  destruct (recv_msgs c1 now ms orcs) as [c2 o2] eqn:E2. injection E as <- <-.
  unfold handle_ack_bits in E1. eapply recv_msgs_NU; [|exact E2]. eapply ack_loop_NU; eassumption.
Qed.

(* what a step puts on the wire: datagrams whose payload encodes messages satisfying P *)
Definition DW (S : list (list byte)) (d : dgram) : Prop :=
  exists ms pl, ((exists k, d_body d = Sealed k (d_hdr d) pl) \/ d_body d = Clear pl) /\
    encode_msgs (map wmsg_of ms) = Ok pl /\ h_count (d_hdr d) = len ms /\
    (forall m, ms = [m] -> m_type m = h_type (d_hdr d)) /\ Forall (msgP (PS S)) ms.

Lemma DW_mono S S' d : (forall x, In x S -> In x S') -> DW S d -> DW S' d.
Proof.
  intros H (ms & pl & A & B & C & D & F). exists ms, pl. repeat split; auto.
  eapply Forall_impl; [|exact F]. intros m. apply msgP_mono. exact H.
Qed.

Lemma build_impl_head e c now ka delay c' h ms :
  build_impl e c now ka delay = (c', Some (h, ms)) ->
  h_count h = len ms /\ (forall m, ms = [m] -> m_type m = h_type h).
Proof.
  unfold build_impl. intros E.
  destruct (match c_pretry_msg c with [] => _ | _ => _ end) as [[prm msgs0] cur0].
  destruct (out_pass e (c_outgoing c) msgs0 cur0) as [[rem msgs] cu].
  match type of E with (if ?b then _ else _) = _ => destruct b; [discriminate|] end.
  injection E as _ <- <-. cbn [h_count h_type]. split; [unfold len; rewrite map_length; reflexivity|].
  intros m Hm. destruct msgs as [|m0 [|m1 r]]; try discriminate. cbn in Hm. injection Hm as <-. reflexivity.
Qed.

Lemma emit_DW S c h ms : h_count h = len ms -> (forall m, ms = [m] -> m_type m = h_type h) -> Forall (msgP (PS S)) ms ->
  Forall (DW S) (flat_map dg_of (emit c (h, ms))).
Proof.
  intros Hc Ht HF. unfold emit. destruct (encode_msgs (map wmsg_of ms)) as [pl|] eqn:Ee; [|constructor].
  assert (Hd : forall kk, DW S {| d_hdr := {| h_to_server := h_to_server h; h_ctime := h_ctime h; h_seq := h_seq h; h_ack := h_ack h;
                                              h_type := h_type h; h_len := len pl; h_count := h_count h; h_ackbits := h_ackbits h |};
                                  d_body := match kk with Some k => Sealed k {| h_to_server := h_to_server h; h_ctime := h_ctime h; h_seq := h_seq h; h_ack := h_ack h;
                                              h_type := h_type h; h_len := len pl; h_count := h_count h; h_ackbits := h_ackbits h |} pl | None => Clear pl end |}).
  { intros kk. exists ms, pl. cbn. repeat split; auto. destruct kk; [left; eexists; reflexivity|right; reflexivity]. }
  destruct (c_key c) as [k|]; [destruct (negb _)|]; cbn; repeat constructor.
  - exact (Hd (Some k)).
  - exact (Hd None).
  - exact (Hd None).
Qed.

Lemma no_emit_dg o : no_emit o -> flat_map dg_of o = [].
Proof.
  induction o as [|x o IH]; intros H; [reflexivity|]. cbn.
  pose proof (H x (or_introl eq_refl)) as Hx. destruct x; try discriminate; cbn; apply IH; intros y Hy; apply H; right; exact Hy.
Qed.

Lemma flat_dg_app a b : flat_map dg_of (a ++ b) = flat_map dg_of a ++ flat_map dg_of b.
Proof. apply flat_map_app. Qed.

Definition ev_small (e : env) (x : ev) : Prop := match x with ESend p _ _ => len p <= e_max_payload e | _ => True end.
Definition ev_sent (S : list (list byte)) (x : ev) : Prop := match x with ESend p _ _ => In p S | _ => True end.

Lemma tick_tail_NQ strict S e c now c1 pk c2 o2 :
  NU c -> QI (PS S) c -> build_packet e c now = (c1, pk) -> check_timeout strict c1 now = (c2, o2) ->
  NU c2 /\ QI (PS S) c2 /\ forall cx, Forall (DW S) (flat_map dg_of (match pk with Some p => emit cx p | None => [] end)).
Proof.
  intros HU HQ E1 E2.
  assert (HU1 : NU c1).
  { unfold build_packet in E1. destruct (_ <? _); [injection E1 as <- <-; exact HU|].
    destruct (build_impl e c now _ _) as [c0 r0] eqn:E0. pose proof (build_impl_NU _ _ _ _ _ _ _ HU E0) as N0.
    destruct r0; injection E1 as <- <-; eapply NU_upd; [| | |exact N0| | | |exact N0]; reflexivity. }
  destruct (build_packet_QI (PS S) _ _ _ _ _ HU HQ E1) as [HQ1 F].
  unfold check_timeout in E2.
  split; [eapply timeout_loop_NU; eassumption|]. split; [eapply timeout_loop_QI; eassumption|].
  intros cx. destruct pk as [[h ms]|]; [|constructor].
  unfold build_packet in E1. destruct (_ <? _); [discriminate|].
  destruct (build_impl e c now _ _) as [c0 r0] eqn:E0. destruct r0 as [[h0 ms0]|]; [|discriminate].
  injection E1 as _ <- <-. destruct (build_impl_head _ _ _ _ _ _ _ _ E0) as [Hc Ht]. apply emit_DW; assumption.
Qed.

Theorem step_NQ S e c x c' o :
  NU c -> QI (PS S) c -> ev_small e x -> ev_sent S x -> step e c x = (c', o) ->
  NU c' /\ QI (PS S) c' /\ Forall (DW S) (flat_map dg_of o).
Proof.
  intros HU HQ Hsm Hse E. destruct x; cbn [step] in E; cbn [ev_small ev_sent] in *.
  - (* send of a small payload *)
    pose proof (send_NU _ _ _ _ _ _ _ HU E) as U'. pose proof (send_frame _ _ _ _ _ _ _ E) as [_ N].
    split; [exact U'|]. split; [|rewrite (no_emit_dg _ N); constructor].
    unfold send in E. destruct (negb _); [injection E as <- <-; exact HQ|].
    assert (len p >? e_max_payload e = false) as Hg by lia. rewrite Hg in E. injection E as <- <-.
    apply send_type_QI; [exact Hse|exact HQ].
  - unfold client_tick in E.
    destruct (client_update c now) as [c0 o0] eqn:E0.
    assert (H0 : NU c0 /\ QI (PS S) c0 /\ no_emit o0).
    { pose proof (client_update_frame _ _ _ _ E0) as (_ & N & _). unfold client_update in E0.
      destruct (_ && (now >? _)); destruct (_ && (_ >? c_temp_timeout _)); injection E0 as <- <-;
        (split; [eapply NU_upd; [| | |exact HU]; reflexivity|split; [eapply QI_upd; [| | |exact HQ]; reflexivity|exact N]]). }
    destruct H0 as (U0 & Q0 & N0).
    destruct (status_eqb (c_status c0) DROPPED); [injection E as <- <-; rewrite (no_emit_dg _ N0); split; [exact U0|split; [exact Q0|constructor]]|].
    match type of E with context [match ?y with (_, _) => _ end] => destruct y as [c1 o1] eqn:E1 end.
    assert (H1 : NU c1 /\ QI (PS S) c1 /\ no_emit o1).
    { destruct r as [|er|d orcs].
      - injection E1 as <- <-. split; [exact U0|split; [exact Q0|apply no_emit_nil]].
      - injection E1 as <- <-. split; [exact U0|split; [exact Q0|intros y [<-|[]]; reflexivity]].
      - destruct (recv c0 now d orcs) as [c'' o''] eqn:Er. injection E1 as <- <-.
        split; [eapply recv_NU; eassumption|]. split; [eapply recv_QI; [apply PS_other|exact Q0|exact Er]|].
        apply recv_frame in Er as [_ B]. auto with frame. }
    destruct H1 as (U1 & Q1 & N1).
    destruct (raised o1); [injection E as <- <-; rewrite flat_dg_app, (no_emit_dg _ N0), (no_emit_dg _ N1); split; [exact U1|split; [exact Q1|constructor]]|].
    destruct (_ >? _); [|injection E as <- <-; rewrite flat_dg_app, (no_emit_dg _ N0), (no_emit_dg _ N1); split; [exact U1|split; [exact Q1|constructor]]].
    destruct (build_packet e c1 now) as [c2 pk] eqn:E2.
    destruct (check_timeout false c2 now) as [c3 o3] eqn:E3. injection E as <- <-.
    destruct (tick_tail_NQ _ _ _ _ _ _ _ _ _ U1 Q1 E2 E3) as (U3 & Q3 & F). apply check_timeout_frame in E3 as [_ N3].
    split; [exact U3|]. split; [exact Q3|].
    rewrite !flat_dg_app, (no_emit_dg _ N0), (no_emit_dg _ N1), (no_emit_dg _ N3). cbn [app]. rewrite app_nil_r. apply F.
  - unfold server_tick in E. destruct (_ >? _); [|injection E as <- <-; split; [exact HU|split; [exact HQ|constructor]]].
    destruct (build_packet e c now) as [c1 pk] eqn:E1.
    destruct (check_timeout true c1 now) as [c2 o2] eqn:E2. injection E as <- <-.
    destruct (tick_tail_NQ _ _ _ _ _ _ _ _ _ HU HQ E1 E2) as (U2 & Q2 & F). apply check_timeout_frame in E2 as [_ N2].
    split; [exact U2|]. split; [exact Q2|]. rewrite flat_dg_app, (no_emit_dg _ N2). cbn [app]. apply F.
  - split; [eapply recv_NU; eassumption|]. split; [eapply recv_QI; [apply PS_other|exact HQ|exact E]|].
    apply recv_frame in E as [_ N]. rewrite (no_emit_dg _ N). constructor.
  - injection E as <- <-. destruct (disconnect_NQ S c k HU HQ) as [A B]. split; [exact A|split; [exact B|constructor]].
  - injection E as <- <-. split; [|split; [|constructor]].
    + eapply NU_upd; [| | |exact HU]; destruct which as [|[[q|q|]|[q|q|]|]|q]; reflexivity.
    + eapply QI_upd; [| | |exact HQ]; destruct which as [|[[q|q|]|[q|q|]|]|q]; reflexivity.
  - injection E as <- <-. unfold client_hello. split; [|split; [|constructor]].
    + eapply NU_upd; [| | |apply (send_type_NU c CLIENT_HELLO hello RNone IHello); [discriminate|exact HU]]; reflexivity.
    + eapply QI_upd; [| | |apply (send_type_QI (PS S) c CLIENT_HELLO hello RNone IHello); [exact I|exact HQ]]; reflexivity.
  - injection E as <- <-. split; [eapply NU_upd; [| | |exact HU]; reflexivity|]. split; [eapply QI_upd; [| | |exact HQ]; reflexivity|constructor].
  - injection E as <- <-. split; [eapply NU_upd; [| | |exact HU]; reflexivity|]. split; [eapply QI_upd; [| | |exact HQ]; reflexivity|constructor].
Qed.

(* ---------- the receiver ---------- *)
Definition inS (S : list (list byte)) (x : Z * list byte) : Prop := In (snd x) S.
Definition wP (S : list (list byte)) (w : wmsg) : Prop := PS S (w_type w) (w_payload w).

Lemma open_DW S key d ws : DW S d -> open_dgram key d = Ok ws -> Forall (wP S) ws.
Proof.
  intros (ms & pl & Hb & He & Hc & Ht & HF) Ho.
  assert (Hdec : decode_msgs (h_type (d_hdr d)) (h_count (d_hdr d)) pl = Ok (map wmsg_of ms)).
  { rewrite Hc. replace (len ms) with (len (map wmsg_of ms)) by (unfold len; rewrite map_length; reflexivity).
    apply msgs_roundtrip; [exact He|]. intros w Hw. destruct ms as [|m [|m2 r]]; try discriminate.
    cbn in Hw. injection Hw as <-. cbn. apply Ht. reflexivity. }
  assert (Hws : ws = map wmsg_of ms).
  { unfold open_dgram in Ho. destruct key as [k|].
    - destruct Hb as [[k' Hb]|Hb]; rewrite Hb in Ho; [|discriminate].
      destruct ((k =? k') && header_eqb (d_hdr d) (d_hdr d) && (len pl <=? h_len (d_hdr d)) && (h_len (d_hdr d) <=? len pl + 16));
        cbn [bind] in Ho; [|discriminate]. congruence.
    - destruct Hb as [[k' Hb]|Hb]; rewrite Hb in Ho; [discriminate|].
      destruct (h_len (d_hdr d) =? len pl); cbn [bind] in Ho; [|discriminate]. congruence. }
  subst ws. apply Forall_forall. intros w Hw. apply in_map_iff in Hw as (m & <- & Hm).
  rewrite Forall_forall in HF. exact (proj1 (HF m Hm)).
Qed.

Lemma recv_msgs_incoming S ws : forall c now orcs c' o,
  Forall (wP S) ws -> Forall (inS S) (c_incoming c) -> recv_msgs c now ws orcs = (c', o) -> Forall (inS S) (c_incoming c').
Proof.
  induction ws as [|m r IH]; intros c now orcs c' o HW HI E; cbn [recv_msgs] in E.
  - injection E as <- <-. exact HI.
  - inversion HW as [|? ? Hm HW']; subst.
    destruct (bf_insert (c_bf_msg c) (w_seq m)) as [bf|]; [|eapply IH; eassumption].
    match type of E with context [match ?x with (_, _) => _ end] => destruct x as [[c1 o1] orcs'] eqn:E1 end.
    assert (H1 : Forall (inS S) (c_incoming c1)).
    { unfold wP in Hm. destruct (w_type m) eqn:Ety.
      - injection E1 as <- <- <-. exact HI.
      - destruct (recv_handshake _ CLIENT_HELLO _) as [c'' o''] eqn:Eh. injection E1 as <- <- <-.
        match type of Eh with recv_handshake ?a ?t ?b = _ => pose proof (recv_handshake_incoming a t b) as Hi end.
        rewrite Eh in Hi. cbn [fst] in Hi. rewrite Hi. exact HI.
      - destruct (recv_handshake _ SERVER_HELLO _) as [c'' o''] eqn:Eh. injection E1 as <- <- <-.
        match type of Eh with recv_handshake ?a ?t ?b = _ => pose proof (recv_handshake_incoming a t b) as Hi end.
        rewrite Eh in Hi. cbn [fst] in Hi. rewrite Hi. exact HI.
      - destruct (recv_handshake _ CHALLENGE_RESP _) as [c'' o''] eqn:Eh. injection E1 as <- <- <-.
        match type of Eh with recv_handshake ?a ?t ?b = _ => pose proof (recv_handshake_incoming a t b) as Hi end.
        rewrite Eh in Hi. cbn [fst] in Hi. rewrite Hi. exact HI.
      - injection E1 as <- <- <-. exact HI.
      - injection E1 as <- <- <-. exact HI.
      - injection E1 as <- <- <-. unfold recv_app. cbn. apply Forall_app. split; [exact HI|]. repeat constructor. exact Hm.
      - destruct Hm. }
    destruct (raised o1); [injection E as <- <-; exact H1|].
    destruct (recv_msgs c1 now r orcs') as [c2 o2] eqn:E2. injection E as <- <-. eapply IH; eassumption.
Qed.

Lemma recv_incoming S c now d orcs c' o :
  (c_key c <> None -> forall ws, open_dgram (c_key c) d = Ok ws -> Forall (wP S) ws) ->
  Forall (inS S) (c_incoming c) -> recv c now d orcs = (c', o) -> Forall (inS S) (c_incoming c').
Proof.
  intros Hopen HI E. destruct (c_key c) as [k|] eqn:Ek.
  2:{ destruct (C01_prekey_proof _ _ _ _ _ _ Ek E) as [Hi _]. rewrite Hi. exact HI. }
  unfold recv in E.
  destruct (keyless_refuses c (d_hdr d)); [injection E as <- <-; exact HI|].
  rewrite Ek in E. destruct (open_dgram (Some k) d) as [ws|] eqn:Eo; [|injection E as <- <-; exact HI].
  destruct (bf_insert (c_bf_pkt c) _) as [bf|]; [|injection E as <- <-; exact HI].
  match type of E with context [handle_ack_bits ?c0 _] => set (cc := c0) in E end.
  destruct (handle_ack_bits cc (d_hdr d)) as [c1 o1] eqn:E1.
  destruct (recv_msgs c1 now ws orcs) as [c2 o2] eqn:E2. injection E as <- <-.
  apply handle_ack_bits_frame in E1 as [[_ _ _ _ _ _ _ _ I1 _] _].
  eapply recv_msgs_incoming; [apply Hopen; [discriminate|reflexivity]| |exact E2]. rewrite I1. exact HI.
Qed.

Lemma build_packet_incoming e c now c' r : build_packet e c now = (c', r) -> c_incoming c' = c_incoming c.
Proof.
  unfold build_packet. intros E. destruct (_ <? _); [injection E as <- <-; reflexivity|].
  destruct (build_impl e c now _ _) as [c1 r1] eqn:E1.
  assert (H1 : c_incoming c1 = c_incoming c).
  { unfold build_impl in E1.
    destruct (match c_pretry_msg c with [] => _ | _ => _ end) as [[prm msgs0] cur0].
    destruct (out_pass e (c_outgoing c) msgs0 cur0) as [[rem msgs] cu].
    match type of E1 with (if ?b then _ else _) = _ => destruct b end; injection E1 as <- _;
      repeat match goal with |- context [match ?x with [] => _ | _ :: _ => _ end] => destruct x end; reflexivity. }
  destruct r1; injection E as <- <-; exact H1.
Qed.

(* every event of the receiving endpoint: incoming_messages only ever holds payloads of S *)
Lemma step_incoming S e c x c' o :
  (forall d ws, dgram_in x = Some d -> c_key (fst (match x with EClientTick now _ => client_update c now | _ => (c, []) end)) <> None ->
                open_dgram (c_key c) d = Ok ws -> Forall (wP S) ws) ->
  Forall (inS S) (c_incoming c) -> step e c x = (c', o) -> Forall (inS S) (c_incoming c').
Proof.
  intros Hd HI E. destruct x; cbn [step] in E; cbn [dgram_in] in Hd.
  - apply send_frame in E as [[_ _ _ _ _ _ _ _ I _] _]. rewrite I. exact HI.
  - unfold client_tick in E.
    destruct (client_update c now) as [c0 o0] eqn:E0.
    assert (H0 : c_incoming c0 = c_incoming c /\ c_key c0 = c_key c).
    { unfold client_update in E0. destruct (_ && (now >? _)); destruct (_ && (_ >? c_temp_timeout _)); injection E0 as <- <-; auto. }
    destruct H0 as [I0 K0].
    destruct (status_eqb (c_status c0) DROPPED); [injection E as <- <-; rewrite I0; exact HI|].
    match type of E with context [match ?y with (_, _) => _ end] => destruct y as [c1 o1] eqn:E1 end.
    assert (H1 : Forall (inS S) (c_incoming c1)).
    { destruct r as [|er|d orcs]; try (injection E1 as <- <-; rewrite I0; exact HI).
      destruct (recv c0 now d orcs) as [c'' o''] eqn:Er. injection E1 as <- <-.
      eapply recv_incoming; [| |exact Er]; [|rewrite I0; exact HI].
      intros Hk ws Ho. rewrite K0 in Ho. apply (Hd d ws eq_refl); [cbn; exact Hk|exact Ho]. }
    destruct (raised o1); [injection E as <- <-; exact H1|].
    destruct (_ >? _); [|injection E as <- <-; exact H1].
    destruct (build_packet e c1 now) as [c2 pk] eqn:E2.
    destruct (check_timeout false c2 now) as [c3 o3] eqn:E3. injection E as <- <-.
    apply build_packet_incoming in E2. apply check_timeout_frame in E3 as [[_ _ _ _ _ _ _ _ I3 _] _]. rewrite I3, E2. exact H1.
  - unfold server_tick in E. destruct (_ >? _); [|injection E as <- <-; exact HI].
    destruct (build_packet e c now) as [c1 pk] eqn:E1.
    destruct (check_timeout true c1 now) as [c2 o2] eqn:E2. injection E as <- <-.
    apply build_packet_incoming in E1. apply check_timeout_frame in E2 as [[_ _ _ _ _ _ _ _ I2 _] _]. rewrite I2, E1. exact HI.
  - eapply recv_incoming; [| exact HI|exact E]. intros Hk ws Ho. apply (Hd d ws eq_refl); [cbn; exact Hk|exact Ho].
  - injection E as <- <-. unfold disconnect. destruct (_ || _); [unfold send_type; cbn; constructor|cbn; exact HI].
  - injection E as <- <-. destruct which as [|[[q|q|]|[q|q|]|]|q]; exact HI.
  - injection E as <- <-. unfold client_hello, send_type. cbn. exact HI.
  - injection E as <- <-. constructor.
  - injection E as <- <-. exact HI.
Qed.

(* ---------- the joint invariant ---------- *)
Record NI (n : net) : Prop := {
  ni_nu : NU (nA n);
  ni_qi : QI (PS (sentA n)) (nA n);
  ni_wire : Forall (DW (sentA n)) (wAB n);
  ni_inc : Forall (inS (sentA n)) (c_incoming (nB n));
  ni_dlv : Forall (fun p => In p (sentA n)) (dlvB n) }.

Lemma NI_net0 : NI net0.
Proof. constructor; cbn; constructor; constructor. Qed.

Lemma skipn_incl {A} n (l : list A) x : In x (skipn n l) -> In x l.
Proof. revert l. induction n as [|n IH]; intros [|y l] H; cbn in *; auto. Qed.

Theorem NI_step e n v : NI n -> wf_ev n v -> small_ev e v -> NI (nstep e n v).
Proof.
  intros [HU HQ HW HI HD] Hwf Hsm. destruct v as [x|x]; cbn [nstep].
  - (* A moves *)
    destruct (step e (nA n) x) as [a' o] eqn:E.
    set (S' := match x with ESend p _ _ => p :: sentA n | _ => sentA n end).
    assert (Hmono : forall y, In y (sentA n) -> In y S') by (intros y Hy; subst S'; destruct x; try exact Hy; right; exact Hy).
    assert (Hsent : ev_sent S' x) by (subst S'; destruct x; cbn; auto).
    assert (Hsmall : ev_small e x) by (destruct x; exact Hsm || exact I).
    destruct (step_NQ S' e (nA n) x a' o HU (QI_mono _ _ _ Hmono HQ) Hsmall Hsent E) as (U' & Q' & F').
    constructor; cbn.
    + exact U'.
    + exact Q'.
    + apply Forall_app. split; [eapply Forall_impl; [|exact HW]; intros d; apply DW_mono; exact Hmono|exact F'].
    + eapply Forall_impl; [|exact HI]. intros y Hy. apply Hmono. exact Hy.
    + eapply Forall_impl; [|exact HD]. intros y Hy. apply Hmono. exact Hy.
  - (* B moves *)
    destruct (step e (nB n) x) as [b' o] eqn:E.
    assert (HI' : Forall (inS (sentA n)) (c_incoming b')).
    { eapply step_incoming; [|exact HI|exact E].
      intros d ws Hd Hk Ho.
      (* a datagram B can open under its key was emitted by A (schedule hypothesis) and so satisfies DW *)
      assert (Hk' : c_key (nB n) <> None).
      { destruct x; cbn in Hk; try exact Hk.
        unfold client_update in Hk. destruct (_ && (now >? _)); destruct (_ && (_ >? c_temp_timeout _)); exact Hk. }
      cbn [wf_ev] in Hwf. pose proof (Hwf d ws Hd Hk' Ho) as Hin.
      rewrite Forall_forall in HW. eapply open_DW; [apply HW; exact Hin|exact Ho]. }
    constructor; cbn; auto.
    apply Forall_app. split; [exact HD|].
    assert (HN : Forall (fun p => In p (sentA n)) (new_incoming (c_incoming (nB n)) (c_incoming b'))).
    { apply Forall_forall; intros p Hp; unfold new_incoming in Hp; apply in_map_iff in Hp as (y & <- & Hy);
      apply skipn_incl in Hy; rewrite Forall_forall in HI'; exact (HI' y Hy). }
    destruct x; first [exact HN | constructor].
Qed.

Theorem NI_run e vs : forall n, NI n -> wf_run e n vs -> NI (nrun e n vs).
Proof.
  induction vs as [|v r IH]; intros n H Hwf; cbn [nrun fold_left]; [exact H|].
  destruct Hwf as (W1 & W2 & W3). apply IH; [apply NI_step; assumption|exact W3].
Qed.

(* the theorem: whatever was handed to B's application had been passed to send() by A's *)
Theorem delivered_was_sent e vs :
  wf_run e net0 vs -> forall p, In p (dlvB (nrun e net0 vs)) -> In p (sentA (nrun e net0 vs)).
Proof.
  intros Hwf p Hp. pose proof (NI_run e vs net0 NI_net0 Hwf) as [_ _ _ _ HD].
  rewrite Forall_forall in HD. exact (HD p Hp).
Qed.
