(* SerKernelsP.v — the byte-level kernels REGENERATED from mpgameserver/serializable.py on every run
   (Gen/SerKernels.v, tools/py2v_bytes.py) are the hand-written model of Model/Ser.v:
   the size limits, every base type id, serialize_int / serialize_bool / serialize_null /
   serialize_bytes byte for byte (struct.error included), and the deserialize_types table. *)
From Coq Require Import Lia ZifyBool.
From Model Require Import Base StructPack Utf8 Ser.
From Gen Require Import SerKernels.
Open Scope Z_scope.

Lemma sp_be_is_be_enc n z : sp_be n z = Ser.be_enc n z.
Proof. revert z; induction n as [|n IH]; intros z; cbn [sp_be Ser.be_enc]; [reflexivity|]. now rewrite IH. Qed.

Lemma sp_dec_is_be_dec l : sp_dec l = Ser.be_dec l.
Proof. reflexivity. Qed.

Lemma gen_limits : gen_ser_MAX_BYTES_LENGTH = MAXB /\ gen_ser_MAX_ARRAY_LENGTH = MAXA.
Proof. split; reflexivity. Qed.

(* the ids the model's encoder writes and its decoder dispatches on are the source's *)
Lemma gen_type_ids :
  [gen_SBT_bool_t; gen_SBT_int8_t; gen_SBT_int16_t; gen_SBT_int32_t; gen_SBT_int64_t;
   gen_SBT_uint8_t; gen_SBT_uint16_t; gen_SBT_uint32_t; gen_SBT_float32_t; gen_SBT_float64_t;
   gen_SBT_string_t; gen_SBT_bytes_t; gen_SBT_null_t; gen_SBT_seq_t; gen_SBT_map_t; gen_SBT_set_t]
  = [1; 3; 4; 5; 6; 8; 9; 10; 11; 12; 13; 14; 15; 16; 17; 18]
  /\ gen_SBT_uint64_t = gen_SBT_float32_t        (* the source's duplicate id: float32 wins, see the table *)
  /\ base_kind gen_SBT_intv_t = None /\ base_kind gen_SBT_uintv_t = None.
Proof. repeat split. Qed.

Lemma spack_H_one (c : fch) tid z :
  frange FH tid = true -> c <> Fbool ->
  spack [FH; c] [tid; z] =
  if frange c z then Ok (sp_be 2 tid ++ sp_be (fsize c) z) else Err EStruct.
Proof.
  intros Ht Hc. unfold spack, pack1, bind. rewrite Ht.
  destruct c; try congruence; destruct (frange _ z); now rewrite ?app_nil_r.
Qed.

Lemma gen_serialize_int_spec z :
  match gen_serialize_int z with
  | Ok b => enc_int z = SOk b
  | Err e => e = EStruct /\ enc_int z = SErr (SE EValue)
  end.
Proof.
  unfold gen_serialize_int, enc_int.
  rewrite !Z.gtb_ltb.
  destruct (2147483647 <? Z.abs z) eqn:E1.
  { rewrite spack_H_one by (reflexivity || discriminate).
    change (frange Fq z) with ((- 2 ^ 63 <=? z) && (z <? 2 ^ 63)).
    destruct ((- 2 ^ 63 <=? z) && (z <? 2 ^ 63)); cbn [bind app].
    - rewrite ?sp_be_is_be_enc; reflexivity.
    - split; reflexivity. }
  destruct (32767 <? Z.abs z) eqn:E2.
  { rewrite spack_H_one by (reflexivity || discriminate).
    replace (frange Fl z) with true by (unfold frange; lia). cbn [bind app].
    rewrite ?sp_be_is_be_enc; reflexivity. }
  destruct (127 <? Z.abs z) eqn:E3.
  { rewrite spack_H_one by (reflexivity || discriminate).
    replace (frange Fh z) with true by (unfold frange; lia). cbn [bind app].
    rewrite ?sp_be_is_be_enc; reflexivity. }
  rewrite spack_H_one by (reflexivity || discriminate).
  replace (frange Fb z) with true by (unfold frange; lia). cbn [bind app].
  rewrite ?sp_be_is_be_enc; reflexivity.
Qed.

(* serialize_int never fails on a length (0 .. 2^63-1) *)
Lemma gen_serialize_int_len n : 0 <= n < 2 ^ 63 -> exists b, gen_serialize_int n = Ok b /\ enc_int n = SOk b.
Proof.
  intros Hn. pose proof (gen_serialize_int_spec n) as H.
  destruct (gen_serialize_int n) as [b|e]; [now exists b|].
  destruct H as [_ H]. exfalso. unfold enc_int in H.
  destruct (0x7FFFFFFF <? Z.abs n); [|destruct (0x7FFF <? Z.abs n); [|destruct (0x7F <? Z.abs n)]]; try discriminate.
  replace ((- 2 ^ 63 <=? n) && (n <? 2 ^ 63)) with true in H by lia. discriminate.
Qed.

Lemma gen_serialize_bool_spec (b : bool) :
  gen_serialize_bool (if b then 1 else 0) = Ok (tag 1 ++ [if b then x01 else x00]).
Proof. destruct b; reflexivity. Qed.

Lemma gen_serialize_null_spec z : gen_serialize_null z = Ok (tag 15).
Proof. reflexivity. Qed.

Lemma gen_serialize_bytes_spec fc reg (bs : list byte) :
  match gen_serialize_bytes bs with
  | Ok r => enc fc reg (VBytes bs) = SOk r
  | Err e => e = EValue /\ enc fc reg (VBytes bs) = SErr (SE EValue)
  end.
Proof.
  unfold gen_serialize_bytes. cbn [enc]. rewrite Z.gtb_ltb.
  change gen_ser_MAX_BYTES_LENGTH with MAXB.
  destruct (MAXB <? len bs) eqn:E; [split; reflexivity|].
  assert (Hn : 0 <= len bs < 2 ^ 63) by (unfold len, MAXB in *; lia).
  destruct (gen_serialize_int_len _ Hn) as [l [Hg Hm]].
  rewrite Hg, Hm. cbn. reflexivity.
Qed.

(* ---------- the deserialize_types table *)
Definition reader_of_kind (k : bk) : reader :=
  match k with
  | KBool => RUnpack Fbool 1
  | KI8 => RUnpack Fb 1 | KI16 => RUnpack Fh 2 | KI32 => RUnpack Fl 4 | KI64 => RUnpack Fq 8
  | KU8 => RUnpack FB 1 | KU16 => RUnpack FH 2 | KU32 => RUnpack FL 4
  | KF32 => RUnpack Ff 4 | KF64 => RUnpack Fd 8
  | KNull => RNull
  | KStr => RFunc 1 | KBytes => RFunc 2 | KMap => RFunc 3 | KSeq => RFunc 4 | KSet => RFunc 5
  end.

Lemma gen_table_is_base_kind t :
  dict_get gen_deserialize_types t = option_map reader_of_kind (base_kind t).
Proof.
  assert (Hc : t < 0 \/ 18 < t \/ t = 0 \/ t = 1 \/ t = 2 \/ t = 3 \/ t = 4 \/ t = 5 \/ t = 6 \/ t = 7 \/ t = 8
               \/ t = 9 \/ t = 10 \/ t = 11 \/ t = 12 \/ t = 13 \/ t = 14 \/ t = 15 \/ t = 16 \/ t = 17 \/ t = 18)
    by lia.
  let T := eval vm_compute in gen_deserialize_types in change gen_deserialize_types with T.
  unfold base_kind. cbn [dict_get].
  destruct Hc as [Hc|[Hc|Hc]].
  1,2: repeat match goal with |- context [?k =? ?u] => destruct (Z.eqb_spec k u); [exfalso; lia|] end; reflexivity.
  repeat (destruct Hc as [Hc|Hc]; [subst t; reflexivity|]). subst t; reflexivity.
Qed.

(* every scalar reader hands struct.unpack exactly the number of bytes its format needs *)
Lemma gen_table_sizes t c n : dict_get gen_deserialize_types t = Some (RUnpack c n) -> n = fsizeZ c.
Proof.
  rewrite gen_table_is_base_kind. destruct (base_kind t) as [k|]; [|discriminate].
  destruct k; cbn; intros H; inversion H; reflexivity.
Qed.

(* and what the model's decoder computes from those bytes is struct.unpack's answer *)
Lemma pow256 n : 256 ^ Z.of_nat n = 2 ^ (8 * Z.of_nat n).
Proof. change 256 with (2 ^ 8). rewrite <- Z.pow_mul_r by lia. reflexivity. Qed.

Lemma unpack1_signed c l : sp_signed c = true -> len l = fsizeZ c -> unpack1 c l = Ok (be_dec_signed l).
Proof.
  intros Hs Hl. unfold unpack1, be_dec_signed. rewrite Hl, Z.eqb_refl. cbn [negb].
  rewrite sp_dec_is_be_dec. rewrite Hs. cbn [andb].
  generalize (Ser.be_dec l); intros u.
  destruct c; try discriminate; unfold fsizeZ, fsize;
    repeat match goal with |- context [Z.pow ?a ?b] =>
      let v := eval vm_compute in (Z.pow a b) in progress change (Z.pow a b) with v end;
    match goal with |- (if ?a then _ else _) = Ok (if ?b then _ else _) =>
      destruct a eqn:Ea; destruct b eqn:Eb; try reflexivity; exfalso; lia end.
Qed.

Lemma unpack1_unsigned c l :
  sp_signed c = false -> c <> Fbool -> c <> Ff -> c <> Fd -> len l = fsizeZ c -> unpack1 c l = Ok (Ser.be_dec l).
Proof.
  intros Hs H1 H2 H3 Hl. unfold unpack1. rewrite Hl, Z.eqb_refl. cbn [negb].
  rewrite sp_dec_is_be_dec, Hs. destruct c; try congruence; reflexivity.
Qed.
