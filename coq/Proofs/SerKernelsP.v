(* SerKernelsP.v — the byte-level kernels REGENERATED from mpgameserver/serializable.py on every run
   (Gen/SerKernels.v, tools/py2v_bytes.py) are the hand-written model of Model/Ser.v:
   the size limits, every base type id, serialize_int / serialize_bool / serialize_null /
   serialize_bytes byte for byte (struct.error included), and the deserialize_types table. *)
From Coq Require Import Lia ZifyBool.
From Model Require Import Base StructPack Utf8 Ser.
From Gen Require Import SerKernels.
Open Scope Z_scope.

Lemma sp_be_is_be_enc n z : sp_be n z = Ser.be_enc n z.
Proof. revert z; induction n as [|n IH]; intros z; cbn [sp_be Ser.be_enc]; [reflexivity|]. now rewrite IH. Qed.

Lemma sp_dec_is_be_dec l : sp_dec l = Ser.be_dec l.
Proof. reflexivity. Qed.

Lemma gen_limits : gen_ser_MAX_BYTES_LENGTH = MAXB /\ gen_ser_MAX_ARRAY_LENGTH = MAXA.
Proof. split; reflexivity. Qed.

(* the ids the model's encoder writes and its decoder dispatches on are the source's *)
Lemma gen_type_ids :
  [gen_SBT_bool_t; gen_SBT_int8_t; gen_SBT_int16_t; gen_SBT_int32_t; gen_SBT_int64_t;
   gen_SBT_uint8_t; gen_SBT_uint16_t; gen_SBT_uint32_t; gen_SBT_float32_t; gen_SBT_float64_t;
   gen_SBT_string_t; gen_SBT_bytes_t; gen_SBT_null_t; gen_SBT_seq_t; gen_SBT_map_t; gen_SBT_set_t]
  = [1; 3; 4; 5; 6; 8; 9; 10; 11; 12; 13; 14; 15; 16; 17; 18]
  /\ gen_SBT_uint64_t = gen_SBT_float32_t        (* the source's duplicate id: float32 wins, see the table *)
  /\ base_kind gen_SBT_intv_t = None /\ base_kind gen_SBT_uintv_t = None.
Proof. repeat split. Qed.

Lemma spack_H_one (c : fch) tid z :
  frange FH tid = true -> c <> Fbool ->
  spack [FH; c] [tid; z] =
  if frange c z then Ok (sp_be 2 tid ++ sp_be (fsize c) z) else Err EStruct.
Proof.
  intros Ht Hc. unfold spack, pack1, bind. rewrite Ht.
  destruct c; try congruence; destruct (frange _ z); now rewrite ?app_nil_r.
Qed.

Lemma gen_serialize_int_spec z :
  match gen_serialize_int z with
  | Ok b => enc_int z = SOk b
  | Err e => e = EStruct /\ enc_int z = SErr (SE EValue)
  end.
Proof.
  unfold gen_serialize_int, enc_int.
  rewrite !Z.gtb_ltb.
  destruct (2147483647 <? Z.abs z) eqn:E1.
  { rewrite spack_H_one by (reflexivity || discriminate).
    change (frange Fq z) with ((- 2 ^ 63 <=? z) && (z <? 2 ^ 63)).
    destruct ((- 2 ^ 63 <=? z) && (z <? 2 ^ 63)); cbn [bind app].
    - rewrite ?sp_be_is_be_enc; reflexivity.
    - split; reflexivity. }
  destruct (32767 <? Z.abs z) eqn:E2.
  { rewrite spack_H_one by (reflexivity || discriminate).
    replace (frange Fl z) with true by (unfold frange; lia). cbn [bind app].
    rewrite ?sp_be_is_be_enc; reflexivity. }
  destruct (127 <? Z.abs z) eqn:E3.
  { rewrite spack_H_one by (reflexivity || discriminate).
    replace (frange Fh z) with true by (unfold frange; lia). cbn [bind app].
    rewrite ?sp_be_is_be_enc; reflexivity. }
  rewrite spack_H_one by (reflexivity || discriminate).
  replace (frange Fb z) with true by (unfold frange; lia). cbn [bind app].
  rewrite ?sp_be_is_be_enc; reflexivity.
Qed.

(* serialize_int never fails on a length (0 .. 2^63-1) *)
Lemma gen_serialize_int_len n : 0 <= n < 2 ^ 63 -> exists b, gen_serialize_int n = Ok b /\ enc_int n = SOk b.
Proof.
  intros Hn. pose proof (gen_serialize_int_spec n) as H.
  destruct (gen_serialize_int n) as [b|e]; [now exists b|].
  destruct H as [_ H]. exfalso. unfold enc_int in H.
  destruct (0x7FFFFFFF <? Z.abs n); [|destruct (0x7FFF <? Z.abs n); [|destruct (0x7F <? Z.abs n)]]; try discriminate.
  replace ((- 2 ^ 63 <=? n) && (n <? 2 ^ 63)) with true in H by lia. discriminate.
Qed.

Lemma gen_serialize_bool_spec (b : bool) :
  gen_serialize_bool (if b then 1 else 0) = Ok (tag 1 ++ [if b then x01 else x00]).
Proof. destruct b; reflexivity. Qed.

Lemma gen_serialize_null_spec z : gen_serialize_null z = Ok (tag 15).
Proof. reflexivity. Qed.

Lemma gen_serialize_bytes_spec fc reg (bs : list byte) :
  match gen_serialize_bytes bs with
  | Ok r => enc fc reg (VBytes bs) = SOk r
  | Err e => e = EValue /\ enc fc reg (VBytes bs) = SErr (SE EValue)
  end.
Proof.
  unfold gen_serialize_bytes. cbn [enc]. rewrite Z.gtb_ltb.
  change gen_ser_MAX_BYTES_LENGTH with MAXB.
  destruct (MAXB <? len bs) eqn:E; [split; reflexivity|].
  assert (Hn : 0 <= len bs < 2 ^ 63) by (unfold len, MAXB in *; lia).
  destruct (gen_serialize_int_len _ Hn) as [l [Hg Hm]].
  rewrite Hg, Hm. cbn. reflexivity.
Qed.

(* ---------- the deserialize_types table *)
Definition reader_of_kind (k : bk) : reader :=
  match k with
  | KBool => RUnpack Fbool 1
  | KI8 => RUnpack Fb 1 | KI16 => RUnpack Fh 2 | KI32 => RUnpack Fl 4 | KI64 => RUnpack Fq 8
  | KU8 => RUnpack FB 1 | KU16 => RUnpack FH 2 | KU32 => RUnpack FL 4
  | KF32 => RUnpack Ff 4 | KF64 => RUnpack Fd 8
  | KNull => RNull
  | KStr => RFunc 1 | KBytes => RFunc 2 | KMap => RFunc 3 | KSeq => RFunc 4 | KSet => RFunc 5
  end.

Lemma gen_table_is_base_kind t :
  dict_get gen_deserialize_types t = option_map reader_of_kind (base_kind t).
Proof.
  assert (Hc : t < 0 \/ 18 < t \/ t = 0 \/ t = 1 \/ t = 2 \/ t = 3 \/ t = 4 \/ t = 5 \/ t = 6 \/ t = 7 \/ t = 8
               \/ t = 9 \/ t = 10 \/ t = 11 \/ t = 12 \/ t = 13 \/ t = 14 \/ t = 15 \/ t = 16 \/ t = 17 \/ t = 18)
    by lia.
  let T := eval vm_compute in gen_deserialize_types in change gen_deserialize_types with T.
  unfold base_kind. cbn [dict_get].
  destruct Hc as [Hc|[Hc|Hc]].
  1,2: repeat match goal with |- context [?k =? ?u] => destruct (Z.eqb_spec k u); [exfalso; lia|] end; reflexivity.
  repeat (destruct Hc as [Hc|Hc]; [subst t; reflexivity|]). subst t; reflexivity.
Qed.

(* every scalar reader hands struct.unpack exactly the number of bytes its format needs *)
Lemma gen_table_sizes t c n : dict_get gen_deserialize_types t = Some (RUnpack c n) -> n = fsizeZ c.
Proof.
  rewrite gen_table_is_base_kind. destruct (base_kind t) as [k|]; [|discriminate].
  destruct k; cbn; intros H; inversion H; reflexivity.
Qed.

(* and what the model's decoder computes from those bytes is struct.unpack's answer *)
Lemma pow256 n : 256 ^ Z.of_nat n = 2 ^ (8 * Z.of_nat n).
Proof. change 256 with (2 ^ 8). rewrite <- Z.pow_mul_r by lia. reflexivity. Qed.

Lemma unpack1_signed c l : sp_signed c = true -> len l = fsizeZ c -> unpack1 c l = Ok (be_dec_signed l).
Proof.
  intros Hs Hl. unfold unpack1, be_dec_signed. rewrite Hl, Z.eqb_refl. cbn [negb].
  rewrite sp_dec_is_be_dec. rewrite Hs. cbn [andb].
  generalize (Ser.be_dec l); intros u.
  destruct c; try discriminate; unfold fsizeZ, fsize;
    repeat match goal with |- context [Z.pow ?a ?b] =>
      let v := eval vm_compute in (Z.pow a b) in progress change (Z.pow a b) with v end;
    match goal with |- (if ?a then _ else _) = Ok (if ?b then _ else _) =>
      destruct a eqn:Ea; destruct b eqn:Eb; try reflexivity; exfalso; lia end.
Qed.

Lemma unpack1_unsigned c l :
  sp_signed c = false -> c <> Fbool -> c <> Ff -> c <> Fd -> len l = fsizeZ c -> unpack1 c l = Ok (Ser.be_dec l).
Proof.
  intros Hs H1 H2 H3 Hl. unfold unpack1. rewrite Hl, Z.eqb_refl. cbn [negb].
  rewrite sp_dec_is_be_dec, Hs. destruct c; try congruence; reflexivity.
Qed.

(* ---------- container writers up to the element loop, as functions of len(value) *)
Lemma gen_header_spec (g : Z -> res (list byte)) (t : Z) n :
  (forall m, g m = (let out := @nil byte in
                    if m >? gen_ser_MAX_ARRAY_LENGTH then Err EValue
                    else do w <- spack [FH] [t]; let out := out ++ w in
                         do w <- wrap_struct (gen_serialize_int m); let out := out ++ w in Ok out)) ->
  frange FH t = true -> 0 <= n ->
  match g n with
  | Ok hd => n <= MAXA /\ exists h, enc_int n = SOk h /\ hd = tag t ++ h
  | Err e => e = EValue /\ MAXA < n
  end.
Proof.
  intros Hg Ht Hn. rewrite Hg. cbn zeta. rewrite Z.gtb_ltb. change gen_ser_MAX_ARRAY_LENGTH with MAXA.
  destruct (MAXA <? n) eqn:E; [split; [reflexivity|lia]|].
  assert (Hr : 0 <= n < 2 ^ 63) by (unfold MAXA in *; lia).
  destruct (gen_serialize_int_len _ Hr) as [h [Hgi Hm]].
  unfold spack, pack1, bind. rewrite Ht, Hgi. cbn [wrap_struct app].
  split; [lia|]. exists h. split; [exact Hm|].
  rewrite app_nil_r. unfold tag. now rewrite sp_be_is_be_enc.
Qed.

Lemma gen_seq_header_enc fc reg l :
  match gen_serialize_seq_header (len l) with
  | Ok hd => enc fc reg (VList l) = (dos body <- mapM (enc fc reg) l; SOk (hd ++ concat body))
             /\ enc fc reg (VTuple l) = (dos body <- mapM (enc fc reg) l; SOk (hd ++ concat body))
  | Err e => e = EValue /\ enc fc reg (VList l) = SErr (SE EValue) /\ enc fc reg (VTuple l) = SErr (SE EValue)
  end.
Proof.
  pose proof (gen_header_spec gen_serialize_seq_header gen_SBT_seq_t (len l) (fun m => eq_refl) eq_refl) as H.
  assert (Hn : 0 <= len l) by (unfold len; lia). specialize (H Hn).
  destruct (gen_serialize_seq_header (len l)) as [hd|e].
  - destruct H as [Hle [h [Hh ->]]]. cbn [enc].
    replace (MAXA <? len l) with false by lia. rewrite Hh. cbn [sbind].
    change gen_SBT_seq_t with 16.
    split; destruct (mapM (enc fc reg) l); cbn [sbind]; now rewrite ?app_assoc.
  - destruct H as [-> Hlt]. cbn [enc]. replace (MAXA <? len l) with true by lia. repeat split.
Qed.

Lemma gen_set_header_enc fc reg l :
  match gen_serialize_set_header (len l) with
  | Ok hd => enc fc reg (VSet l) = (dos body <- mapM (enc fc reg) l; SOk (hd ++ concat body))
  | Err e => e = EValue /\ enc fc reg (VSet l) = SErr (SE EValue)
  end.
Proof.
  pose proof (gen_header_spec gen_serialize_set_header gen_SBT_set_t (len l) (fun m => eq_refl) eq_refl) as H.
  assert (Hn : 0 <= len l) by (unfold len; lia). specialize (H Hn).
  destruct (gen_serialize_set_header (len l)) as [hd|e].
  - destruct H as [Hle [h [Hh ->]]]. cbn [enc].
    replace (MAXA <? len l) with false by lia. rewrite Hh. cbn [sbind].
    change gen_SBT_set_t with 18.
    destruct (mapM (enc fc reg) l); cbn [sbind]; now rewrite ?app_assoc.
  - destruct H as [-> Hlt]. cbn [enc]. replace (MAXA <? len l) with true by lia. repeat split.
Qed.

Lemma gen_map_header_enc fc reg kv :
  match gen_serialize_map_header (len kv) with
  | Ok hd => enc fc reg (VDict kv) =
             (dos body <- mapM (fun p => let '(k, x) := p in dos a <- enc fc reg k; dos b <- enc fc reg x; SOk (a ++ b)) kv;
              SOk (hd ++ concat body))
  | Err e => e = EValue /\ enc fc reg (VDict kv) = SErr (SE EValue)
  end.
Proof.
  pose proof (gen_header_spec gen_serialize_map_header gen_SBT_map_t (len kv) (fun m => eq_refl) eq_refl) as H.
  assert (Hn : 0 <= len kv) by (unfold len; lia). specialize (H Hn).
  destruct (gen_serialize_map_header (len kv)) as [hd|e].
  - destruct H as [Hle [h [Hh ->]]]. cbn [enc].
    replace (MAXA <? len kv) with false by lia. rewrite Hh. cbn [sbind].
    change gen_SBT_map_t with 17.
    match goal with |- sbind ?m _ = sbind ?m' _ => change m' with m; destruct m end; cbn [sbind]; now rewrite ?app_assoc.
  - destruct H as [-> Hlt]. cbn [enc]. replace (MAXA <? len kv) with true by lia. repeat split.
Qed.

(* ---------- decoder length guards: what the source checks between `length = deserialize_value(...)` and the use of
   length is the model's dec_len (is_int = isinstance(length, int): bool counts) *)
Definition guard_spec (cap : Z) (is_int : bool) (n : Z) : res Z :=
  if negb is_int then Err EType else if cap <? n then Err EValue else Ok n.

Lemma gen_guards :
  (forall b n, gen_deserialize_string_guard b n = guard_spec MAXB b n) /\
  (forall b n, gen_deserialize_bytes_guard b n = guard_spec MAXB b n) /\
  (forall b n, gen_deserialize_map_guard b n = guard_spec MAXA b n) /\
  (forall b n, gen_deserialize_seq_guard b n = guard_spec MAXA b n) /\
  (forall b n, gen_deserialize_set_guard b n = guard_spec MAXA b n).
Proof.
  repeat split; intros b n; unfold guard_spec;
    [unfold gen_deserialize_string_guard|unfold gen_deserialize_bytes_guard|unfold gen_deserialize_map_guard
     |unfold gen_deserialize_seq_guard|unfold gen_deserialize_set_guard];
    rewrite Z.gtb_ltb; reflexivity.
Qed.

(* dec_len, the length step of the model's decoder, is "decode a value, then that guard" *)
Definition guard_M (g : bool -> Z -> res Z) (lv : value) : M Z :=
  match (match as_len lv with None => g false 0 | Some n => g true n end) with
  | Ok n => ret n
  | Err e => fail (SE e)
  end.

Lemma dec_len_is_guard (sub : M value) cap s :
  dec_len sub cap s = mbind sub (guard_M (guard_spec cap)) s.
Proof.
  unfold dec_len, mbind. destruct (sub s) as [[lv|e] s']; [|reflexivity].
  unfold guard_M, guard_spec. destruct (as_len lv) as [n|]; cbn [negb]; [|reflexivity].
  destruct (cap <? n); reflexivity.
Qed.
