(* LiveP.v — C05, liveness composition, part 1: what each event does to the two endpoints when the
   pair's only traffic is ONE unfragmented guaranteed message (Model/LiveNet.v).
   Sender x: everything queued / waiting for a retry / registered as a RetrySender is that message
   (SQ); while it is not done, every packet assembly that passes the rate gate with the last packet
   older than max(keep-alive interval, send interval) emits a datagram that carries it.
   Receiver y: an idle endpoint (IdleP.ep_ok); a datagram that carries the message is accepted
   unless a copy of it was accepted before, and the message is appended to incoming_messages
   exactly once.
   The pair: the joint invariant LJ over (sender, receiver, the two directions of TimedNet's ghost
   wire, the sender's latest update()) — datagram numbers, "acks name accepted datagrams", "done
   means delivered", the emission deadline — and its four step lemmas (sender reads its socket /
   sender's update() / receiver is offered a datagram / receiver's update()).  Proofs/LiveNetP.v
   runs it through the timed histories in both directions. *)
From Coq Require Import Lia ZifyBool.
From RecordUpdate Require Import RecordUpdate.
From Model Require Import Base SeqNum Wire Conn Client Net TimedNet LiveNet.
From Proofs Require Import Tac SeqNumP WireP ConnFrameP NonceP PackP C09P AckP CallbackP CustodyP DeliverP AckNamesP AckNetP IdleP.
Import RecordSetNotations.
Open Scope Z_scope.

Section OneMessage.
  Variables (e : env) (k rid mseq : Z) (p : list byte) (ucb : icb).
  Hypothesis Hrid : 0 <= rid.
  Hypothesis Hmseq : 1 <= mseq <= HALF.
  Hypothesis Hp : len p <= e_max_payload e.
  Hypothesis He : e_max_payload e < 2 ^ 16.

  Definition K : cb := Retry rid mseq APP p ucb.
  Definition mk (a : Z) : pmsg :=
    {| m_seq := mseq; m_type := APP; m_payload := p; m_cb := Some K; m_retry := RTimeout; m_atime := a |}.
  Definition wm : wmsg := {| w_seq := mseq; w_type := APP; w_payload := p |}.

  Definition done (c : conn) : bool := zmem rid (c_done c).
  Definition mine (kb : cb) : Prop := TimedNet.plain_cb kb = true \/ kb = K.

  Lemma rid_K : rid_of K <> -1. Proof. cbn. lia. Qed.
  Lemma stamp_mk now a : stamp now (mk a) = mk now. Proof. reflexivity. Qed.
  Lemma wmsg_mk a : wmsg_of (mk a) = wm. Proof. reflexivity. Qed.
  Lemma fits_mk : fits e (len p) 0 0 = true. Proof. apply fits_alone. exact Hp. Qed.

  (* ================= the sender ================= *)
  Record SQ (c : conn) : Prop := {
    sq_out : Forall (fun m => exists a, m = mk a) (c_outgoing c);
    sq_prm : c_pretry_msg c = [] \/ c_pretry_msg c = [(mseq, mk (c_last_send c))];
    sq_pcbs : Forall (fun x => Forall mine (snd x)) (c_pcbs c);
    sq_pre : forall s l, dget s (c_pretry c) = Some l ->
               Forall (eq mseq) l /\ (l <> [] -> exists ks, dget s (c_pcbs c) = Some ks /\ In K ks);
    sq_live : done c = true \/ c_outgoing c <> [] \/ c_pretry_msg c <> [] }.

  (* ---------- callbacks ---------- *)
  Record feff (ok : bool) (c c' : conn) : Prop := {
    fe_sess : same_sess c c';
    fe_prm : c_pretry_msg c' = c_pretry_msg c;
    fe_pcbs : c_pcbs c' = c_pcbs c;
    fe_pre : c_pretry c' = c_pretry c;
    fe_out : exists extra, c_outgoing c' = c_outgoing c ++ extra /\ Forall (fun m => m = mk 0) extra;
    fe_done : forall r, zmem r (c_done c) = true -> zmem r (c_done c') = true;
    fe_new : done c' = true -> done c = true \/ ok = true }.

  Lemma feff_refl ok c : feff ok c c.
  Proof.
    constructor; auto with frame. exists []. rewrite app_nil_r. auto.
  Qed.

  Lemma feff_trans ok a b c : feff ok a b -> feff ok b c -> feff ok a c.
  Proof.
    intros [A1 A2 A3 A4 (x1 & A5 & A5') A6 A7] [B1 B2 B3 B4 (x2 & B5 & B5') B6 B7].
    constructor; try congruence; auto.
    - eapply same_sess_trans; eassumption.
    - exists (x1 ++ x2). rewrite B5, A5, app_assoc. split; [reflexivity|]. apply Forall_app. auto.
    - intros H. destruct (B7 H) as [H'|H']; auto.
  Qed.

  Lemma fire_icb_feff ok c i c' o : fire_icb c i ok = (c', o) -> feff ok c c'.
  Proof.
    intros E. pose proof (fire_icb_frame _ _ _ _ _ E) as [S _]. unfold fire_icb in E.
    assert (H0 : forall c1, same_sess c c1 -> c_pretry_msg c1 = c_pretry_msg c -> c_pcbs c1 = c_pcbs c -> c_pretry c1 = c_pretry c ->
                   c_outgoing c1 = c_outgoing c -> c_done c1 = c_done c -> feff ok c c1).
    { intros c1 S1 A B C D F. constructor; auto.
      - exists []. rewrite app_nil_r. auto.
      - intros r. rewrite F. auto.
      - unfold done. rewrite F. auto. }
    destruct i; try (injection E as <- <-; apply H0; auto).
    destruct (dget fid (c_pfrags c)); [|injection E as <- <-; apply H0; auto].
    destruct (forallb is_some _); injection E as <- <-; apply H0; auto.
  Qed.

  Lemma fire_cb_feff ok c kb c' o : mine kb -> fire_cb c kb ok = (c', o) -> feff ok c c'.
  Proof.
    intros Hm E. pose proof (fire_cb_frame _ _ _ _ _ E) as [S _].
    destruct kb as [i|r ms ty pl i]; cbn [fire_cb] in E; [eapply fire_icb_feff; exact E|].
    destruct Hm as [Hm|Hm]; [discriminate|]. injection Hm as -> -> -> -> ->.
    destruct (zmem rid (c_done c)) eqn:Ed; [injection E as <- <-; apply feff_refl|].
    destruct ok; cbn [negb] in E.
    - pose proof (fire_icb_feff true _ _ _ _ E) as [B1 B2 B3 B4 (x & B5 & B5') B6 B7].
      constructor; auto.
      + exists x. rewrite B5. auto.
      + intros r Hr. apply B6. unfold zmem in *. cbn. rewrite Hr. apply orb_true_r.
    - injection E as <- <-. constructor; cbn; auto.
      exists [mk 0]. split; [reflexivity|]. repeat constructor.
  Qed.

  Lemma fire_all_feff ok ks : forall c c' o, Forall mine ks -> fire_all c ks ok = (c', o) -> feff ok c c'.
  Proof.
    induction ks as [|kb ks IH]; intros c c' o HF E; cbn [fire_all] in E.
    - injection E as <- <-. apply feff_refl.
    - inversion HF as [|? ? Hk HF']; subst.
      destruct (fire_cb c kb ok) as [c1 o1] eqn:E1. destruct (fire_all c1 ks ok) as [c2 o2] eqn:E2.
      injection E as <- <-. eapply feff_trans; [eapply fire_cb_feff; eassumption|eapply IH; eassumption].
  Qed.

  (* ---------- resolving one datagram ---------- *)
  Record xeff (c c' : conn) : Prop := {
    xe_sess : same_sess c c';
    xe_pcbs : forall s ks, dget s (c_pcbs c') = Some ks -> dget s (c_pcbs c) = Some ks;
    xe_done : forall r, zmem r (c_done c) = true -> zmem r (c_done c') = true }.

  Lemma xeff_refl c : xeff c c. Proof. constructor; auto with frame. Qed.
  Lemma xeff_trans a b c : xeff a b -> xeff b c -> xeff a c.
  Proof. intros [A1 A2 A3] [B1 B2 B3]. constructor; auto. eapply same_sess_trans; eassumption. Qed.

  Lemma fold_ddel_shape (l : list Z) (d : list (Z * pmsg)) :
    Forall (eq mseq) l -> (d = [] \/ exists v, d = [(mseq, v)]) ->
    fold_left (fun d m => ddel m d) l d = (match l with [] => d | _ => [] end).
  Proof.
    intros HF Hd. destruct l as [|a l]; [reflexivity|]. inversion HF as [|? ? Ha HF']; subst a.
    cbn [fold_left]. assert (ddel mseq d = []) as ->.
    { destruct Hd as [->|(v & ->)]; [reflexivity|]. unfold ddel. cbn. rewrite Z.eqb_refl. reflexivity. }
    apply ClearP.fold_ddel_nil.
  Qed.

  (* the tail of resolve: c1 is the state after the callbacks of datagram s have been fired and
     its entry removed; c2 the state after the retry bookkeeping of s has been removed as well *)
  Lemma resolve_tail ok c s c1 c2 (kfired : Prop) :
    SQ c -> same_sess c c1 -> c_pretry_msg c1 = c_pretry_msg c -> c_pretry c1 = c_pretry c ->
    (exists extra, c_outgoing c1 = c_outgoing c ++ extra /\ Forall (fun m => m = mk 0) extra) ->
    (forall r, zmem r (c_done c) = true -> zmem r (c_done c1) = true) ->
    (forall s' ks, dget s' (c_pcbs c1) = Some ks -> s' <> s /\ dget s' (c_pcbs c) = Some ks) ->
    (forall s' ks, s' <> s -> dget s' (c_pcbs c) = Some ks -> dget s' (c_pcbs c1) = Some ks) ->
    Forall (fun x => Forall mine (snd x)) (c_pcbs c1) ->
    (match dget s (c_pretry c) with Some (_ :: _) => True | _ => False end -> done c1 = true \/ c_outgoing c1 <> []) ->
    (done c1 = true -> done c = true \/ (ok = true /\ kfired)) ->
    same_sess c1 c2 -> c_done c2 = c_done c1 -> c_outgoing c2 = c_outgoing c1 -> c_pcbs c2 = c_pcbs c1 ->
    c_pretry_msg c2 = match dget s (c_pretry c1) with
                      | Some l => fold_left (fun d m => ddel m d) l (c_pretry_msg c1)
                      | None => c_pretry_msg c1 end ->
    c_pretry c2 = match dget s (c_pretry c1) with Some _ => ddel s (c_pretry c1) | None => c_pretry c1 end ->
    SQ c2 /\ xeff c c2 /\ (done c2 = true -> done c = true \/ (ok = true /\ kfired)).
  Proof.
    intros [Q1 Q2 Q3 Q4 Q5] S1 A1 C1 (x1 & D1 & D1') G1 P1 P2 M1 Hfired Hnew S2 Hd2 Ho2 Hp2 Hm2 Hr2.
    assert (Hss : same_sess c c2) by (eapply same_sess_trans; eassumption).
    assert (Hls : c_last_send c2 = c_last_send c) by (destruct Hss as [[_ _ L _ _ _ _ _] _ _ _ _ _ _ _ _ _]; exact L).
    rewrite C1, A1 in Hm2. rewrite C1 in Hr2.
    split; [|split].
    - constructor.
      + rewrite Ho2, D1. apply Forall_app. split; [exact Q1|]. eapply Forall_impl; [|exact D1']. intros m ->. exists 0. reflexivity.
      + rewrite Hls, Hm2. destruct (dget s (c_pretry c)) as [l|] eqn:El; [|exact Q2].
        destruct (Q4 _ _ El) as [Hl _].
        rewrite fold_ddel_shape; [|exact Hl|destruct Q2 as [->| ->]; [left; reflexivity|right; eexists; reflexivity]].
        destruct l; [exact Q2|left; reflexivity].
      + rewrite Hp2. exact M1.
      + intros s' l' Hg. rewrite Hr2 in Hg.
        assert (Hg' : dget s' (ddel s (c_pretry c)) = Some l').
        { destruct (dget s (c_pretry c)) eqn:El; [exact Hg|].
          rewrite CallbackP.dget_ddel. destruct (s' =? s) eqn:Es; [|exact Hg].
          assert (s' = s) by lia. subst s'. rewrite El in Hg. discriminate. }
        rewrite CallbackP.dget_ddel in Hg'. destruct (s' =? s) eqn:Es; [discriminate|].
        destruct (Q4 _ _ Hg') as [Hl Hk]. split; [exact Hl|]. intros Hne. destruct (Hk Hne) as (ks & H1 & H2).
        exists ks. split; [|exact H2]. rewrite Hp2. apply P2; [lia|exact H1].
      + unfold done. rewrite Hd2, Ho2. fold (done c1).
        destruct (done c1) eqn:Ed1; [left; reflexivity|].
        destruct (c_outgoing c1) as [|m0 q0] eqn:Eo1; [|right; left; discriminate].
        right. right.
        assert (Hd : done c = false).
        { destruct (done c) eqn:Ed; [|reflexivity]. unfold done in *. rewrite (G1 _ Ed) in Ed1. discriminate. }
        assert (Hoc : c_outgoing c = []) by (rewrite D1 in Eo1; destruct (c_outgoing c); [reflexivity|discriminate]).
        destruct Q5 as [Q5|[Q5|Q5]]; [congruence|contradiction|].
        rewrite Hm2. destruct (dget s (c_pretry c)) as [l|] eqn:El; [|exact Q5].
        destruct l as [|a l]; [exact Q5|]. exfalso. destruct Hfired as [H|H]; [exact I|congruence|apply H; reflexivity].
    - constructor; [exact Hss| |].
      + intros s' ks. rewrite Hp2. intros H. apply (P1 _ _ H).
      + intros r Hr. rewrite Hd2. apply G1. exact Hr.
    - unfold done. rewrite Hd2. exact Hnew.
  Qed.

  (* the done flag of K appears during fire_all only if K is among the callbacks fired *)
  Lemma fire_all_newly_done ok ks : forall c0 c1 o1, Forall mine ks -> fire_all c0 ks ok = (c1, o1) ->
    done c0 = false -> done c1 = true -> In K ks.
  Proof.
    induction ks as [|kb ks IH]; intros c0 c1 o1 Hks E1 Hd0 Hd1; cbn [fire_all] in E1.
    - injection E1 as <- <-. congruence.
    - inversion Hks as [|? ? Hk Hks']; subst.
      destruct (fire_cb c0 kb ok) as [ca oa] eqn:Ea. destruct (fire_all ca ks ok) as [cz oz] eqn:Eb.
      injection E1 as <- <-. destruct (done ca) eqn:Eda.
      + left. destruct kb as [i|r ms ty pl i].
        * cbn [fire_cb] in Ea. unfold fire_icb in Ea. unfold done in *.
          destruct i; try (injection Ea as <- <-; congruence).
          destruct (dget fid (c_pfrags c0)); [|injection Ea as <- <-; congruence].
          destruct (forallb is_some _); injection Ea as <- <-; change (zmem rid (c_done c0) = true) in Eda; congruence.
        * destruct Hk as [Hk|Hk]; [discriminate|exact Hk].
      + right. eapply IH; eassumption.
  Qed.

  Lemma resolve_X ok c s c' o : SQ c -> resolve ok c s = (c', o) ->
    SQ c' /\ xeff c c' /\
    (done c' = true -> done c = true \/ (ok = true /\ exists ks, dget s (c_pcbs c) = Some ks /\ In K ks)).
  Proof.
    intros HQ E. pose proof HQ as [Q1 Q2 Q3 Q4 Q5]. unfold resolve in E.
    set (c0 := if ok then _ else _) in E.
    assert (F0 : feff ok c c0) by (subst c0; destruct ok; constructor; cbn; auto; try sess_triv; exists []; rewrite app_nil_r; auto).
    destruct (dget s (c_pcbs c0)) as [ks|] eqn:Eg.
    - destruct (fire_all c0 ks ok) as [c1 o1] eqn:E1.
      destruct F0 as [S0 A0 B0 C0 (x0 & D0 & D0') G0 N0].
      assert (Hks : Forall mine ks).
      { rewrite B0 in Eg. apply ClearP.dget_In in Eg. rewrite Forall_forall in Q3. exact (Q3 _ Eg). }
      pose proof (fire_all_feff ok ks _ _ _ Hks E1) as F1.
      assert (F01 : feff ok c c1).
      { eapply feff_trans; [|exact F1]. constructor; auto. exists x0. auto. }
      destruct F01 as [S1 A1 B1 C1 X1 G1 N1].
      injection E as <- <-.
      eapply (resolve_tail ok c s (c1 <| c_pcbs := ddel s (c_pcbs c1) |>)); try exact HQ; cbn; auto.
      + eapply same_sess_trans; [exact S1|sess_triv].
      + intros s' ks'. rewrite B1, CallbackP.dget_ddel. destruct (s' =? s) eqn:Es; [discriminate|]. intros H. split; [lia|exact H].
      + intros s' ks' Hne H. rewrite B1, CallbackP.dget_ddel. replace (s' =? s) with false by lia. exact H.
      + apply ClearP.Forall_ddel. rewrite B1. exact Q3.
      + intros Hpre.
        destruct (dget s (c_pretry c)) as [[|a l]|] eqn:El; try destruct Hpre.
        destruct (Q4 _ _ El) as [_ Hk]. destruct (Hk ltac:(discriminate)) as (ks' & H1 & H2).
        rewrite B0, H1 in Eg. injection Eg as <-.
        destruct (fire_all_grows _ _ _ _ _ E1) as [_ Ff]. destruct (Ff K H2 rid_K) as [H|(m & Hm & _)].
        * left. exact H.
        * right. intros Hn. rewrite Hn in Hm. destruct Hm.
      + intros Hd1. change (done c1 = true) in Hd1. destruct (N1 Hd1) as [H|H]; [left; exact H|].
        destruct (done c) eqn:Ed; [left; reflexivity|right]. split; [exact H|].
        rewrite B0 in Eg. exists ks. split; [exact Eg|].
        assert (Hd0 : done c0 = false).
        { destruct (done c0) eqn:Ez; [|reflexivity]. subst c0. unfold done in *. destruct ok; change (zmem rid (c_done c) = true) in Ez; congruence. }
        eapply fire_all_newly_done; eassumption.
      + destruct (dget s (c_pretry c1)); sess_triv.
      + destruct (dget s (c_pretry c1)); reflexivity.
      + destruct (dget s (c_pretry c1)); reflexivity.
      + destruct (dget s (c_pretry c1)); reflexivity.
      + destruct (dget s (c_pretry c1)); reflexivity.
      + destruct (dget s (c_pretry c1)); reflexivity.
    - destruct F0 as [S0 A0 B0 C0 X0 G0 N0]. injection E as <- <-.
      assert (R : SQ
                (match dget s (c_pretry c0) with
                 | Some mseqs => c0 <| c_pretry_msg := fold_left (fun d m => ddel m d) mseqs (c_pretry_msg c0) |> <| c_pretry := ddel s (c_pretry c0) |>
                 | None => c0 end <| c_packs := ddel s (c_packs (match dget s (c_pretry c0) with
                 | Some mseqs => c0 <| c_pretry_msg := fold_left (fun d m => ddel m d) mseqs (c_pretry_msg c0) |> <| c_pretry := ddel s (c_pretry c0) |>
                 | None => c0 end)) |>) /\ xeff c
                (match dget s (c_pretry c0) with
                 | Some mseqs => c0 <| c_pretry_msg := fold_left (fun d m => ddel m d) mseqs (c_pretry_msg c0) |> <| c_pretry := ddel s (c_pretry c0) |>
                 | None => c0 end <| c_packs := ddel s (c_packs (match dget s (c_pretry c0) with
                 | Some mseqs => c0 <| c_pretry_msg := fold_left (fun d m => ddel m d) mseqs (c_pretry_msg c0) |> <| c_pretry := ddel s (c_pretry c0) |>
                 | None => c0 end)) |>) /\ (done (match dget s (c_pretry c0) with
                 | Some mseqs => c0 <| c_pretry_msg := fold_left (fun d m => ddel m d) mseqs (c_pretry_msg c0) |> <| c_pretry := ddel s (c_pretry c0) |>
                 | None => c0 end <| c_packs := ddel s (c_packs (match dget s (c_pretry c0) with
                 | Some mseqs => c0 <| c_pretry_msg := fold_left (fun d m => ddel m d) mseqs (c_pretry_msg c0) |> <| c_pretry := ddel s (c_pretry c0) |>
                 | None => c0 end)) |>) = true -> done c = true \/ (ok = true /\ False))).
      { eapply (resolve_tail ok c s c0); try exact HQ; auto.
        + intros s' ks'. rewrite B0. intros H. split; [|exact H]. intros ->. rewrite B0 in Eg. congruence.
        + intros s' ks' _ H. rewrite B0. exact H.
        + rewrite B0. exact Q3.
        + intros Hpre.
          destruct (dget s (c_pretry c)) as [[|a l]|] eqn:El; try destruct Hpre.
          destruct (Q4 _ _ El) as [_ Hk]. destruct (Hk ltac:(discriminate)) as (ks' & H1 & H2).
          rewrite B0, H1 in Eg. discriminate.
        + intros Hd0. destruct (N0 Hd0) as [H|H]; [left; exact H|].
          left. subst c0. unfold done in *. rewrite H in Hd0. exact Hd0.
        + destruct (dget s (c_pretry c0)); sess_triv.
        + destruct (dget s (c_pretry c0)); reflexivity.
        + destruct (dget s (c_pretry c0)); reflexivity.
        + destruct (dget s (c_pretry c0)); reflexivity.
        + destruct (dget s (c_pretry c0)); reflexivity.
        + destruct (dget s (c_pretry c0)); reflexivity. }
      destruct R as (R1 & R2 & R3). split; [exact R1|]. split; [exact R2|].
      intros H. destruct (R3 H) as [H'|[_ []]]. left. exact H'.
  Qed.

  (* ---------- the two loops over pending_acks ---------- *)
  Lemma ack_loop_X h snap : forall c c' o, SQ c -> ack_loop c h snap = (c', o) ->
    SQ c' /\ xeff c c' /\
    (done c' = true -> done c = true \/
       exists s ks, dget s (c_pcbs c) = Some ks /\ In K ks /\ hdr_acks (h_ack h) (h_ackbits h) s = true).
  Proof.
    induction snap as [|[s t] r IH]; intros c c' o HQ E; cbn [ack_loop] in E.
    - injection E as <- <-. split; [exact HQ|]. split; [apply xeff_refl|auto].
    - dpair E c1 o1 E1. destruct (ack_loop c1 h r) as [c2 o2] eqn:E2. injection E as <- <-.
      assert (H1 : SQ c1 /\ xeff c c1 /\
                   (done c1 = true -> done c = true \/
                      exists s ks, dget s (c_pcbs c) = Some ks /\ In K ks /\ hdr_acks (h_ack h) (h_ackbits h) s = true)).
      { destruct (hdr_acks (h_ack h) (h_ackbits h) s) eqn:Ha.
        - destruct (resolve_X _ _ _ _ _ HQ E1) as (A & B & C). split; [exact A|]. split; [exact B|].
          intros H. destruct (C H) as [H'|(_ & ks & H1 & H2)]; [left; exact H'|right; exists s, ks; auto].
        - destruct (_ >? _).
          + destruct (resolve_X _ _ _ _ _ HQ E1) as (A & B & C). split; [exact A|]. split; [exact B|].
            intros H. destruct (C H) as [H'|(H' & _)]; [left; exact H'|discriminate].
          + injection E1 as <- <-. split; [exact HQ|]. split; [apply xeff_refl|auto]. }
      destruct H1 as (Q1 & X1 & D1). destruct (IH _ _ _ Q1 E2) as (Q2 & X2 & D2).
      split; [exact Q2|]. split; [eapply xeff_trans; eassumption|].
      intros H. destruct (D2 H) as [H'|(s' & ks & G1 & G2 & G3)]; [exact (D1 H')|].
      right. exists s', ks. split; [apply (xe_pcbs _ _ X1); exact G1|auto].
  Qed.

  Lemma timeout_loop_X strict now snap : forall c c' o, SQ c -> timeout_loop strict c now snap = (c', o) ->
    SQ c' /\ xeff c c' /\ (done c' = true -> done c = true).
  Proof.
    induction snap as [|[s t] r IH]; intros c c' o HQ E; cbn [timeout_loop] in E.
    - injection E as <- <-. split; [exact HQ|]. split; [apply xeff_refl|auto].
    - dpair E c1 o1 E1. destruct (timeout_loop strict c1 now r) as [c2 o2] eqn:E2. injection E as <- <-.
      assert (H1 : SQ c1 /\ xeff c c1 /\ (done c1 = true -> done c = true)).
      { match type of E1 with (if ?b then _ else _) = _ => destruct b end.
        - destruct (resolve_X _ _ _ _ _ HQ E1) as (A & B & C). split; [exact A|]. split; [exact B|].
          intros H. destruct (C H) as [H'|(H' & _)]; [exact H'|discriminate].
        - injection E1 as <- <-. split; [exact HQ|]. split; [apply xeff_refl|auto]. }
      destruct H1 as (Q1 & X1 & D1). destruct (IH _ _ _ Q1 E2) as (Q2 & X2 & D2).
      split; [exact Q2|]. split; [eapply xeff_trans; eassumption|auto].
  Qed.

  (* ---------- packet assembly ---------- *)
  Definition shaped (ms : list pmsg) : Prop := Forall (fun m => exists a, m = mk a) ms.

  Lemma shaped_stamp now ms : shaped ms -> map (stamp now) ms = map (fun _ => mk now) ms.
  Proof. induction 1 as [|m ms (a & ->) _ IH]; [reflexivity|]. cbn [map]. rewrite IH. reflexivity. Qed.

  Lemma shaped_cbs ms : shaped ms -> opt_list (map m_cb ms) = map (fun _ => K) ms.
  Proof. induction 1 as [|m ms (a & ->) _ IH]; [reflexivity|]. cbn [map opt_list m_cb mk]. rewrite IH. reflexivity. Qed.

  Lemma retr_const now (ms : list pmsg) :
    filter (fun m => negb (retry_is_none (m_retry m))) (map (fun _ => mk now) ms) = map (fun _ => mk now) ms.
  Proof. induction ms as [|m ms IH]; [reflexivity|]. cbn. f_equal. exact IH. Qed.

  Lemma fold_dset_mk now (ms : list pmsg) : forall d, (d = [] \/ exists v, d = [(mseq, v)]) ->
    fold_left (fun d m => dset (m_seq m) m d) (map (fun _ => mk now) ms) d
    = match ms with [] => d | _ => [(mseq, mk now)] end.
  Proof.
    induction ms as [|m ms IH]; intros d Hd; [reflexivity|]. cbn [map fold_left].
    assert (Hs : dset (m_seq (mk now)) (mk now) d = [(mseq, mk now)]).
    { destruct Hd as [->|(v & ->)]; cbn; [reflexivity|]. rewrite Z.eqb_refl. reflexivity. }
    rewrite Hs, IH by (right; eexists; reflexivity). destruct ms; reflexivity.
  Qed.

  Lemma out_pass_head q m : forall rem msgs cu,
    out_pass e (mk m :: q) [] 0 = (rem, msgs, cu) -> msgs <> [].
  Proof.
    intros rem msgs cu E. cbn [out_pass] in E.
    assert (Hf : fits e (len (m_payload (mk m))) (len (@nil pmsg)) 0 = true) by exact fits_mk. rewrite Hf in E.
    destruct (out_pass_prefix _ _ _ _ _ _ _ E) as (ch & ->). cbn. discriminate.
  Qed.

  (* fields that packet assembly leaves alone *)
  Record bframe (c c' : conn) : Prop := {
    bf_server : c_server c' = c_server c; bf_key : c_key c' = c_key c; bf_status : c_status c' = c_status c;
    bf_incoming : c_incoming c' = c_incoming c; bf_bfp : c_bf_pkt c' = c_bf_pkt c; bf_bfm : c_bf_msg c' = c_bf_msg c;
    bf_si : c_send_interval c' = c_send_interval c; bf_ka : c_ka_interval c' = c_ka_interval c;
    bf_ot : c_out_timeout c' = c_out_timeout c; bf_lr : c_last_recv c' = c_last_recv c;
    bf_hello : c_hello_sent c' = c_hello_sent c }.

  Lemma build_packet_X c now c' r :
    SQ c -> c_status c = CONNECTED -> c_last_send c = c_last_ka c ->
    c_send_interval c < now - c_last_send c ->
    build_packet e c now = (c', r) ->
    SQ c' /\ bframe c c' /\ c_last_send c' = c_last_ka c' /\ done c' = done c /\
    match r with
    | None => now - c_last_send c <= kmax c /\ c_seq_send c' = c_seq_send c /\ c_last_send c' = c_last_send c
              /\ c_pcbs c' = c_pcbs c
    | Some (h, ms) =>
        c_seq_send c' = seq_succ (c_seq_send c) /\ c_last_send c' = now /\ h_seq h = seq_succ (c_seq_send c)
        /\ h_count h = len ms /\ Forall (eq (mk now)) ms
        /\ h_type h = (match ms with [] => KEEP_ALIVE | _ => APP end)
        /\ (done c = false -> ms <> [])
        /\ c_pcbs c' = (match ms with [] => c_pcbs c
                        | _ => dset (seq_succ (c_seq_send c)) (map (fun _ => K) ms) (c_pcbs c) end)
    end.
  Proof.
    intros [Q1 Q2 Q3 Q4 Q5] Hst Hls Hg E. unfold build_packet in E.
    assert (now - c_last_send c <? c_send_interval c = false) as Hr by lia. rewrite Hr in E.
    destruct (build_impl e c now (now - c_last_ka c >? c_ka_interval c) (c_ka_interval c)) as [c1 r1] eqn:E1.
    unfold build_impl in E1.
    (* the retry pass *)
    destruct (match c_pretry_msg c with [] => _ | _ => _ end) as [[prm msgs0] cur0] eqn:E0.
    assert (H0 : (prm = c_pretry_msg c /\ msgs0 = [] /\ cur0 = 0 /\
                  (c_pretry_msg c <> [] -> now - c_last_send c < c_ka_interval c))
                 \/ (prm = [] /\ msgs0 = [mk (c_last_send c)] /\ c_pretry_msg c <> [])).
    { destruct Q2 as [Hp0|Hp0]; rewrite Hp0 in E0.
      - injection E0 as <- <- <-. left. rewrite Hp0. repeat split; auto. intros H; contradiction.
      - cbn [sort_items fold_right ins_item retry_pass m_atime mk] in E0.
        destruct (now - c_last_send c <? c_ka_interval c) eqn:Hdue.
        + injection E0 as <- <- <-. left. rewrite Hp0. repeat split; auto. intros _. lia.
        + assert (Hf : fits e (len (m_payload (mk (c_last_send c)))) (len (@nil pmsg)) 0 = true) by exact fits_mk.
          rewrite Hf in E0. injection E0 as <- <- <-.
          right. rewrite Hp0. split; [|split; [reflexivity|discriminate]].
          unfold ddel. cbn. rewrite Z.eqb_refl. reflexivity. }
    clear E0.
    assert (Hprm : prm = [] \/ exists v, prm = [(mseq, v)]).
    { destruct H0 as [(-> & _)|(-> & _)]; [|left; reflexivity].
      destruct Q2 as [->| ->]; [left; reflexivity|right; eexists; reflexivity]. }
    assert (Hm0 : shaped msgs0).
    { destruct H0 as [(_ & -> & _)|(_ & -> & _)]; [constructor|]. repeat constructor. eexists. reflexivity. }
    (* the queue pass *)
    destruct (out_pass e (c_outgoing c) msgs0 cur0) as [[rem msgs] cu] eqn:E2.
    destruct (ClearP.out_pass_Forall _ _ _ _ _ _ _ _ Q1 Hm0 E2) as [Hrem Hmsgs].
    destruct (out_pass_prefix _ _ _ _ _ _ _ E2) as (ch & Hch).
    fold shaped in Hrem, Hmsgs.
    set (s := seq_succ (c_seq_send c)) in *.
    rewrite (shaped_stamp now msgs Hmsgs), (shaped_cbs msgs Hmsgs), retr_const in E1.
    assert (Hall : Forall (eq (mk now)) (map (fun _ => mk now) msgs)).
    { apply Forall_forall. intros x Hx. apply in_map_iff in Hx as (y & <- & _). reflexivity. }
    destruct msgs as [|m0 msgs'] eqn:Emsgs.
    - (* nothing selected: a keep-alive or nothing *)
      assert (Hnil : msgs0 = [] /\ c_outgoing c = [] /\ rem = []).
      { destruct msgs0; [|destruct ch; discriminate]. split; [reflexivity|].
        destruct (c_outgoing c) as [|m q] eqn:Eo; [cbn in E2; injection E2 as <- _; auto|].
        exfalso. destruct H0 as [(_ & _ & -> & _)|(_ & H & _)]; [|discriminate].
        inversion Q1 as [|? ? Hm _]. destruct Hm as (a & Hm). rewrite Hm in E2. eapply out_pass_head; [exact E2|reflexivity]. }
      destruct Hnil as (-> & Ho & ->). destruct H0 as [(-> & _ & _ & Hdue)|(_ & H & _)]; [|discriminate].
      cbn [map opt_list filter fold_left] in E1.
      assert (Hst' : c_status (c <| c_pretry_msg := c_pretry_msg c |> <| c_outgoing := [] |>) = CONNECTED) by exact Hst.
      rewrite Hst' in E1. cbn [status_eqb status_code Z.eqb Pos.eqb andb] in E1. rewrite andb_true_r in E1.
      destruct (now - c_last_ka c >? c_ka_interval c) eqn:Hka; cbn [ptype_eqb ptype_code Z.eqb] in E1.
      + (* keep-alive: only when the message is done *)
        injection E1 as <- <-. injection E as <- <-.
        assert (Hp0 : c_pretry_msg c = []).
        { destruct (c_pretry_msg c) eqn:Ep; [reflexivity|]. exfalso. specialize (Hdue ltac:(discriminate)). lia. }
        split; [|split; [constructor; reflexivity|split; [reflexivity|split; [reflexivity|]]]].
        * constructor.
          -- cbn. constructor.
          -- left. exact Hp0.
          -- exact Q3.
          -- exact Q4.
          -- destruct Q5 as [Q5|[Q5|Q5]]; [left; exact Q5|rewrite Ho in Q5; contradiction|rewrite Hp0 in Q5; contradiction].
        * cbn. repeat split; auto. intros Hd. exfalso.
          destruct Q5 as [Q5|[Q5|Q5]]; [congruence|rewrite Ho in Q5; contradiction|rewrite Hp0 in Q5; contradiction].
      + injection E1 as <- <-. injection E as <- <-.
        split; [|split; [constructor; reflexivity|split; [exact Hls|split; [reflexivity|]]]].
        * constructor.
          -- cbn. constructor.
          -- exact Q2.
          -- exact Q3.
          -- exact Q4.
          -- destruct Q5 as [Q5|[Q5|Q5]]; [left; exact Q5|rewrite Ho in Q5; contradiction|right; right; exact Q5].
        * cbn. repeat split; auto. unfold kmax.
          destruct (c_pretry_msg c) eqn:Ep; [lia|]. specialize (Hdue ltac:(discriminate)). lia.
    - (* the message goes out *)
      cbn [map opt_list] in E1. cbn [ptype_eqb ptype_code m_type Z.eqb] in E1.
      assert (Hty : m_type m0 = APP) by (inversion Hmsgs as [|? ? (a & ->) _]; reflexivity).
      rewrite Hty in E1. cbn [ptype_eqb ptype_code Z.eqb] in E1.
      cbn [fold_left] in E1.
      injection E1 as <- <-. injection E as <- <-.
      assert (Hfold : fold_left (fun d m => dset (m_seq m) m d) (map (fun _ => mk now) msgs')
                        (dset (m_seq (mk now)) (mk now) prm) = [(mseq, mk now)]).
      { assert (Hs : dset (m_seq (mk now)) (mk now) prm = [(mseq, mk now)]).
        { destruct Hprm as [->|(v & ->)]; cbn; [reflexivity|]. rewrite Z.eqb_refl. reflexivity. }
        rewrite Hs, fold_dset_mk by (right; eexists; reflexivity). destruct msgs'; reflexivity. }
      split; [|split; [constructor; reflexivity|split; [reflexivity|split; [reflexivity|]]]].
      + constructor.
        * exact Hrem.
        * right. exact Hfold.
        * change (Forall (fun x => Forall mine (snd x)) (dset s (K :: map (fun _ => K) msgs') (c_pcbs c))).
          apply ClearP.Forall_dset; [exact Q3|]. cbn [snd]. constructor; [right; reflexivity|].
          apply Forall_forall. intros x Hx. apply in_map_iff in Hx as (y & <- & _). right. reflexivity.
        * change (forall s0 l, dget s0 (dset s (map m_seq (mk now :: map (fun _ => mk now) msgs')) (c_pretry c)) = Some l ->
                    Forall (eq mseq) l /\ (l <> [] -> exists ks, dget s0 (dset s (K :: map (fun _ => K) msgs') (c_pcbs c)) = Some ks /\ In K ks)).
          intros s' l. rewrite !CallbackP.dget_dset. destruct (s' =? s) eqn:Es.
          -- intros H. injection H as <-. split.
             ++ apply Forall_forall. intros x Hx. destruct Hx as [<-|Hx]; [reflexivity|].
                apply in_map_iff in Hx as (y & <- & Hy). apply in_map_iff in Hy as (z & <- & _). reflexivity.
             ++ intros _. eexists. split; [reflexivity|left; reflexivity].
          -- intros H. destruct (Q4 _ _ H) as [A B]. split; [exact A|exact B].
        * right. right. change (fold_left (fun d m => dset (m_seq m) m d) (map (fun _ => mk now) msgs')
                        (dset (m_seq (mk now)) (mk now) prm) <> []). rewrite Hfold. discriminate.
      + cbn. rewrite !map_length, map_map.
        split; [reflexivity|]. split; [reflexivity|]. split; [reflexivity|]. split; [reflexivity|].
        split; [exact Hall|]. split; [reflexivity|]. split; [intros _; discriminate|reflexivity].
  Qed.

  (* ---------- what goes on the wire ---------- *)
  Lemma wm_ok : wmsg_ok wm.
  Proof. unfold wmsg_ok, wm, HALF in *. cbn. split; lia. Qed.

  Lemma emit_X cx h ms now : c_key cx = Some k -> Forall (eq (mk now)) ms -> h_count h = len ms ->
    h_type h = (match ms with [] => KEEP_ALIVE | _ => APP end) ->
    exists dg, flat_map dg_of (emit cx (h, ms)) = [dg] /\ h_seq (d_hdr dg) = h_seq h /\
               open_dgram (Some k) dg = Ok (map (fun _ => wm) ms).
  Proof.
    intros Hk Hms Hc Ht. unfold emit.
    assert (Hw : map wmsg_of ms = map (fun _ => wm) ms).
    { apply map_ext_in. intros m Hm. rewrite Forall_forall in Hms. rewrite <- (Hms m Hm). reflexivity. }
    rewrite Hw.
    assert (Hok : Forall wmsg_ok (map (fun _ => wm) ms)).
    { apply Forall_forall. intros x Hx. apply in_map_iff in Hx as (y & <- & _). exact wm_ok. }
    destruct (encode_msgs_total _ Hok) as (pl & Ep & _). rewrite Ep, Hk.
    assert (Hnh : negb (ptype_eqb (h_type h) SERVER_HELLO) = true) by (rewrite Ht; destruct ms; reflexivity).
    cbn [h_type]. rewrite Hnh. cbn [flat_map dg_of app].
    eexists. split; [reflexivity|]. split; [reflexivity|].
    unfold open_dgram. cbn [d_hdr d_body h_len h_type h_count]. rewrite Z.eqb_refl, header_eqb_refl.
    assert (Hl : (len pl <=? len pl) && (len pl <=? len pl + 16) = true) by lia.
    cbn [andb]. rewrite Hl. cbn [bind].
    rewrite Hc. replace (len ms) with (len (map (fun _ : pmsg => wm) ms)) by (unfold len; rewrite map_length; reflexivity).
    apply msgs_roundtrip; [exact Ep|]. intros m Hm. rewrite Ht.
    destruct ms as [|m1 [|m2 r]]; try discriminate. cbn in Hm. injection Hm as <-. reflexivity.
  Qed.

  (* a datagram of the sender: it opens under k to copies of the message (none: a keep-alive) *)
  Definition xdg (dg : dgram) : Prop := exists ws, open_dgram (Some k) dg = Ok ws /\ Forall (eq wm) ws.
  Definition carries (dg : dgram) : Prop := exists ws, open_dgram (Some k) dg = Ok ws /\ Forall (eq wm) ws /\ ws <> [].

  (* ---------- the tail of update(): packet assembly, emission, time-out sweep ---------- *)
  (* what one update() of the sender does, as far as the joint invariant is concerned *)
  Record xtail_eff (c : conn) (now : Z) (c' : conn) (dgs : list dgram) : Prop := {
    xt_sq : SQ c';
    xt_frame : bframe c c';
    xt_ls : c_last_send c' = c_last_ka c';
    xt_done : done c' = done c;
    xt_emit :
      (dgs = [] /\ now - c_last_send c <= kmax c /\ c_seq_send c' = c_seq_send c /\ c_last_send c' = c_last_send c
       /\ forall s ks, dget s (c_pcbs c') = Some ks -> dget s (c_pcbs c) = Some ks)
      \/ (exists dg, dgs = [dg] /\ c_seq_send c' = seq_succ (c_seq_send c) /\ c_last_send c' = now
          /\ h_seq (d_hdr dg) = seq_succ (c_seq_send c) /\ xdg dg /\ (done c = false -> carries dg)
          /\ forall s ks, dget s (c_pcbs c') = Some ks -> In K ks ->
               dget s (c_pcbs c) = Some ks \/ (s = seq_succ (c_seq_send c) /\ carries dg)) }.

  Lemma bframe_sess a b c : bframe a b -> same_sess b c -> bframe a c.
  Proof.
    intros [A1 A2 A3 A4 A5 A6 A7 A8 A9 A10 A11] [[B1 B2 B3 B4 B5 B6 B7 B8] C1 C2 C3 C4 C5 C6 C7 C8 C9].
    constructor; congruence.
  Qed.

  Lemma tick_tail_X strict c now c1 pk c2 o2 :
    SQ c -> c_status c = CONNECTED -> c_key c = Some k -> c_last_send c = c_last_ka c ->
    c_send_interval c < now - c_last_send c ->
    build_packet e c now = (c1, pk) -> check_timeout strict c1 now = (c2, o2) ->
    xtail_eff c now c2 (match pk with Some pkt => flat_map dg_of (emit c2 pkt) | None => [] end) /\ no_emit o2.
  Proof.
    intros HQ Hst Hk Hls Hg E1 E2.
    destruct (build_packet_X _ _ _ _ HQ Hst Hls Hg E1) as (Q1 & F1 & L1 & Hd1 & R1).
    unfold check_timeout in E2.
    destruct (timeout_loop_X _ _ _ _ _ _ Q1 E2) as (Q2 & [S2 P2 G2] & D2).
    pose proof (timeout_loop_frame _ _ _ _ _ _ E2) as [_ N2].
    split; [|exact N2].
    assert (Hd : done c2 = done c).
    { rewrite <- Hd1. destruct (done c1) eqn:Ed.
      - unfold done in *. apply G2. exact Ed.
      - destruct (done c2) eqn:Ed2; [|reflexivity]. specialize (D2 eq_refl). congruence. }
    assert (Hk2 : c_key c2 = Some k).
    { destruct S2 as [_ Kk _ _ _ _ _ _ _ _]. rewrite Kk, (bf_key _ _ F1). exact Hk. }
    pose proof S2 as [[_ T2 T3 T4 _ _ _ _] _ _ _ _ _ _ _ _ _].
    constructor.
    - exact Q2.
    - eapply bframe_sess; eassumption.
    - congruence.
    - exact Hd.
    - destruct pk as [[h ms]|].
      + destruct R1 as (A1 & A2 & A3 & A4 & A5 & A6 & A7 & A8). right.
        destruct (emit_X c2 h ms now Hk2 A5 A4 A6) as (dg & Ed & Hs & Ho).
        exists dg. split; [exact Ed|]. split; [congruence|]. split; [congruence|]. split; [congruence|].
        assert (Hx : Forall (eq wm) (map (fun _ : pmsg => wm) ms)).
        { apply Forall_forall. intros x Hx. apply in_map_iff in Hx as (y & <- & _). reflexivity. }
        split; [eexists; split; [exact Ho|exact Hx]|].
        assert (Hcar : ms <> [] -> carries dg).
        { intros Hne. eexists. split; [exact Ho|]. split; [exact Hx|]. destruct ms; [contradiction|discriminate]. }
        split; [intros Hdn; apply Hcar; apply A7; exact Hdn|].
        intros s ks Hg2 HK. apply P2 in Hg2. rewrite A8 in Hg2. destruct ms as [|m0 ms']; [left; exact Hg2|].
        rewrite CallbackP.dget_dset in Hg2. destruct (s =? seq_succ (c_seq_send c)) eqn:Es; [|left; exact Hg2].
        right. split; [lia|]. apply Hcar. discriminate.
      + destruct R1 as (A1 & A2 & A3 & A4). left. split; [reflexivity|]. split; [exact A1|]. split; [congruence|].
        split; [congruence|]. intros s ks Hg2. apply P2 in Hg2. rewrite A4 in Hg2. exact Hg2.
  Qed.

  (* ---------- the sender receives a datagram of the (idle) peer, or junk ---------- *)
  Lemma SQ_same c c' : c_outgoing c' = c_outgoing c -> c_pretry_msg c' = c_pretry_msg c -> c_pcbs c' = c_pcbs c ->
    c_pretry c' = c_pretry c -> c_done c' = c_done c -> c_last_send c' = c_last_send c -> SQ c -> SQ c'.
  Proof.
    intros A B C D F G [Q1 Q2 Q3 Q4 Q5]. constructor; unfold done in *; rewrite ?A, ?B, ?C, ?D, ?F, ?G; assumption.
  Qed.

  Record xrecv_eff (c : conn) (dg : dgram) (c' : conn) : Prop := {
    xr_sq : SQ c';
    xr_core : same_core c c';
    xr_key : c_key c' = c_key c;
    xr_status : c_status c' = c_status c;
    xr_hello : c_hello_sent c' = c_hello_sent c;
    xr_pcbs : forall s ks, dget s (c_pcbs c') = Some ks -> dget s (c_pcbs c) = Some ks;
    xr_mono : done c = true -> done c' = true;
    xr_new : done c' = true -> done c = true \/
               exists s ks, dget s (c_pcbs c) = Some ks /\ In K ks
                            /\ hdr_acks (h_ack (d_hdr dg)) (h_ackbits (d_hdr dg)) s = true }.

  Lemma xrecv_eff_same c dg c' : SQ c -> same_sess c c' -> c_outgoing c' = c_outgoing c -> c_pretry_msg c' = c_pretry_msg c ->
    c_pcbs c' = c_pcbs c -> c_pretry c' = c_pretry c -> c_done c' = c_done c -> xrecv_eff c dg c'.
  Proof.
    intros HQ S A B C D F. pose proof S as [[S1 S2 S3 S4 S5 S6 S7 S8] T1 T2 T3 T4 T5 T6 T7 T8 T9].
    constructor; auto.
    - eapply SQ_same; eassumption.
    - constructor; assumption.
    - intros s ks. rewrite C. auto.
    - unfold done. rewrite F. auto.
    - unfold done. rewrite F. auto.
  Qed.

  Lemma recv_X c now dg orcs c' o :
    SQ c -> c_key c = Some k -> (ka_dgram k dg \/ forall ms, open_dgram (Some k) dg <> Ok ms) ->
    recv c now dg orcs = (c', o) ->
    xrecv_eff c dg c' /\ raised o = false /\ no_emit o.
  Proof.
    intros HQ Hk Hd E. pose proof E as E0. apply recv_frame in E0 as [Sc Ne].
    unfold recv in E. unfold keyless_refuses in E. rewrite Hk in E. cbn [is_some negb andb] in E.
    assert (Hdrop : xrecv_eff c dg (c <| c_dropped := c_dropped c + 1 |>)) by (apply xrecv_eff_same; auto; sess_triv).
    destruct (open_dgram (Some k) dg) as [ms|er] eqn:Eo.
    2:{ injection E as <- <-. split; [exact Hdrop|]. split; [reflexivity|exact Ne]. }
    destruct Hd as [Hd|Hd]; [|exfalso; eapply Hd; reflexivity].
    rewrite (open_ka _ _ Hd) in Eo. injection Eo as <-.
    destruct (bf_insert (c_bf_pkt c) (h_seq (d_hdr dg))) as [bf|er] eqn:Eb.
    2:{ injection E as <- <-. split; [exact Hdrop|]. split; [reflexivity|exact Ne]. }
    set (c0 := c <| c_bf_pkt := bf |> <| c_received := _ |> <| c_last_recv := now |>) in E.
    destruct (handle_ack_bits c0 (d_hdr dg)) as [c1 o1] eqn:E1. cbn [recv_msgs] in E. injection E as <- <-.
    assert (Q0 : SQ c0) by (eapply SQ_same; [| | | | | |exact HQ]; reflexivity).
    unfold handle_ack_bits in E1.
    destruct (ack_loop_X _ _ _ _ _ Q0 E1) as (Q1 & [S1 P1 G1] & D1).
    pose proof (ack_loop_cb_only _ _ _ _ _ E1) as C1.
    split; [|split; [|exact Ne]].
    - destruct S1 as [_ T1 T2 T3 T4 T5 T6 T7 T8 T9]. constructor; auto.
      + intros Hdn. unfold done in *. apply G1. exact Hdn.
    - unfold raised. rewrite existsb_app. fold (raised o1). rewrite (cb_only_not_raised _ C1). reflexivity.
  Qed.

  (* ================= the receiver ================= *)
  (* its message window: behind the message's number, or at it *)
  Definition mfresh (y : conn) : Prop := bf_cur (c_bf_msg y) = 0 \/ 1 <= bf_cur (c_bf_msg y) < mseq.
  Definition mseen (y : conn) : Prop := bf_cur (c_bf_msg y) = mseq.

  Lemma bf_insert_fresh f : (bf_cur f = 0 \/ 1 <= bf_cur f < mseq) ->
    exists f', bf_insert f mseq = Ok f' /\ bf_cur f' = mseq.
  Proof.
    intros H. unfold bf_insert. destruct (bf_cur f =? 0) eqn:E0; [eexists; split; reflexivity|].
    destruct H as [H|H]; [lia|].
    assert (Hd : seq_diff (bf_cur f) mseq = bf_cur f - mseq).
    { unfold seq_diff. cbv zeta. unfold HALF in *. destruct (bf_cur f - mseq >? 32767) eqn:E1; [lia|].
      destruct (bf_cur f - mseq <? - (32767)) eqn:E2; [lia|]. reflexivity. }
    rewrite Hd. replace (bf_cur f - mseq <? 0) with true by lia. eexists; split; reflexivity.
  Qed.

  Lemma bf_insert_seen f : bf_cur f = mseq -> bf_insert f mseq = Err EDup.
  Proof.
    intros H. unfold bf_insert. rewrite H. replace (mseq =? 0) with false by lia.
    assert (Hd : seq_diff mseq mseq = 0) by (unfold seq_diff, HALF; cbv zeta; rewrite Z.sub_diag; reflexivity).
    rewrite Hd. reflexivity.
  Qed.

  Lemma recv_msgs_seen ws : forall y now orcs, Forall (eq wm) ws -> mseen y -> recv_msgs y now ws orcs = (y, []).
  Proof.
    induction ws as [|w ws IH]; intros y now orcs HF Hs; [reflexivity|].
    inversion HF as [|? ? <- HF']; subst. cbn [recv_msgs w_seq wm]. rewrite (bf_insert_seen _ Hs).
    cbn [w_type is_hs]. apply IH; assumption.
  Qed.

  Lemma recv_msgs_fresh ws y now orcs : Forall (eq wm) ws -> ws <> [] -> mfresh y ->
    exists f', bf_insert (c_bf_msg y) mseq = Ok f' /\ bf_cur f' = mseq /\
               recv_msgs y now ws orcs = (recv_app (y <| c_bf_msg := f' |>) mseq p, []).
  Proof.
    intros HF Hne Hf. destruct ws as [|w ws]; [contradiction|]. inversion HF as [|? ? <- HF']; subst.
    destruct (bf_insert_fresh _ Hf) as (f' & Ei & Ec). exists f'. split; [exact Ei|]. split; [exact Ec|].
    cbn [recv_msgs w_seq w_type w_payload wm]. rewrite Ei. cbn [raised existsb].
    rewrite recv_msgs_seen; [reflexivity|exact HF'|exact Ec].
  Qed.

  Lemma recv_Y y now dg orcs ws Ky siy y' o :
    ep_ok k Ky siy y -> open_dgram (Some k) dg = Ok ws -> Forall (eq wm) ws -> (mfresh y \/ mseen y) ->
    recv y now dg orcs = (y', o) ->
    raised o = false /\ no_emit o /\ ep_ok k Ky siy y' /\
    c_seq_send y' = c_seq_send y /\ c_last_ka y' = c_last_ka y /\ c_last_send y' = c_last_send y /\
    match bf_insert (c_bf_pkt y) (h_seq (d_hdr dg)) with
    | Err _ => c_bf_pkt y' = c_bf_pkt y /\ c_incoming y' = c_incoming y /\ c_bf_msg y' = c_bf_msg y
               /\ c_last_recv y' = c_last_recv y
    | Ok bf => c_bf_pkt y' = bf /\ c_last_recv y' = now /\
        ((ws = [] \/ mseen y) -> c_incoming y' = c_incoming y /\ c_bf_msg y' = c_bf_msg y) /\
        (ws <> [] -> mfresh y -> c_incoming y' = c_incoming y ++ [(mseq, p)] /\ mseen y')
    end.
  Proof.
    intros H Ho HF Hm E. pose proof E as E0. apply recv_frame in E0 as [[S1 S2 S3 S4 S5 S6 S7 S8] Ne].
    unfold recv in E. pose proof (eo_key _ _ _ _ H) as Hk.
    unfold keyless_refuses in E. rewrite Hk in E. cbn [is_some negb andb] in E. rewrite Ho in E.
    destruct (bf_insert (c_bf_pkt y) (h_seq (d_hdr dg))) as [bf|er] eqn:Eb.
    2:{ injection E as <- <-. split; [reflexivity|]. split; [exact Ne|].
        split; [destruct H as [A B (Q1 & Q2 & Q3) D F G I]; constructor; cbn; auto; split; auto|]. cbn. repeat split; auto. }
    set (c0 := y <| c_bf_pkt := bf |> <| c_received := _ |> <| c_last_recv := now |>) in E.
    destruct (handle_ack_bits c0 (d_hdr dg)) as [c1 o1] eqn:E1.
    destruct (recv_msgs c1 now ws orcs) as [c2 o2] eqn:E2. injection E as <- <-.
    assert (H0 : ep_ok k Ky siy c0).
    { destruct H as [A B (Q1 & Q2 & Q3) D F G I]. subst c0. constructor; cbn; auto. split; auto. }
    pose proof (ack_loop_cb_only _ _ _ _ _ E1) as C1.
    pose proof (ack_loop_q _ _ _ _ _ (eo_quiet _ _ _ _ H0) E1) as Q1.
    apply handle_ack_bits_frame in E1 as [S N].
    pose proof (ep_ok_sess _ _ _ _ _ S Q1 H0) as H1.
    destruct S as [_ T1 T2 T3 T4 T5 T6 T7 T8 T9].
    assert (Hm1 : c_bf_msg c1 = c_bf_msg y) by (rewrite T7; reflexivity).
    assert (Hi1 : c_incoming c1 = c_incoming y) by (rewrite T8; reflexivity).
    assert (Hcases : (c2 = c1 /\ o2 = [] /\ (ws = [] \/ mseen y)) \/
                     (ws <> [] /\ mfresh y /\ o2 = [] /\ exists f', bf_cur f' = mseq /\ c2 = recv_app (c1 <| c_bf_msg := f' |>) mseq p)).
    { destruct ws as [|w ws'] eqn:Ews.
      - cbn in E2. injection E2 as <- <-. left. auto.
      - rewrite <- Ews in *. assert (Hne : ws <> []) by (rewrite Ews; discriminate).
        destruct Hm as [Hm|Hm].
        + right. assert (Hf1 : mfresh c1) by (unfold mfresh; rewrite Hm1; exact Hm).
          destruct (recv_msgs_fresh ws c1 now orcs HF Hne Hf1) as (f' & _ & Ec & Er). rewrite Er in E2. injection E2 as <- <-.
          split; [exact Hne|]. split; [exact Hm|]. split; [reflexivity|]. exists f'. auto.
        + left. assert (Hs1 : mseen c1) by (unfold mseen; rewrite Hm1; exact Hm).
          rewrite (recv_msgs_seen ws c1 now orcs HF Hs1) in E2. injection E2 as <- <-. auto. }
    assert (Hr : raised (o1 ++ o2 ++ (if raised o2 then [] else [ORet true])) = false).
    { assert (o2 = []) as -> by (destruct Hcases as [(_ & A & _)|(_ & _ & A & _)]; exact A).
      cbn. unfold raised. rewrite existsb_app. fold (raised o1). rewrite (cb_only_not_raised _ C1). reflexivity. }
    split; [exact Hr|]. split; [exact Ne|].
    destruct Hcases as [(-> & _ & Hc)|(Hne & Hf & _ & f' & Ec & ->)].
    - split; [exact H1|]. split; [exact S2|]. split; [exact S4|]. split; [exact S3|].
      split; [rewrite T6; reflexivity|]. split; [rewrite T3; reflexivity|]. split; [intros _; auto|].
      intros Hne Hf. exfalso. destruct Hc as [Hc|Hc]; [contradiction|].
      unfold mfresh, mseen in *. lia.
    - split.
      { destruct H1 as [A B (Q1' & Q2' & Q3') D F G I]. constructor; cbn; auto; split; auto. }
      split; [exact S2|]. split; [exact S4|]. split; [exact S3|].
      split; [cbn; rewrite T6; reflexivity|]. split; [cbn; rewrite T3; reflexivity|]. split.
      + intros [Hc|Hc]; [contradiction|]. unfold mfresh, mseen in *. lia.
      + intros _ _. cbn. rewrite Hi1. split; [reflexivity|exact Ec].
  Qed.

  (* junk: the receiver cannot open it *)
  Lemma recv_junk c now dg orcs : c_key c = Some k -> (forall ms, open_dgram (Some k) dg <> Ok ms) ->
    recv c now dg orcs = (c <| c_dropped := c_dropped c + 1 |>, [ORet false]).
  Proof.
    intros Hk Hj. unfold recv, keyless_refuses. rewrite Hk. cbn [is_some negb andb].
    destruct (open_dgram (Some k) dg) as [ms|] eqn:Eo; [exfalso; eapply Hj; reflexivity|reflexivity].
  Qed.

  (* ================= whole update() calls ================= *)
  Variables (Ky siy : Z).
  Lemma bframe_refl c : bframe c c. Proof. constructor; reflexivity. Qed.

  Lemma xtail_closed c now : SQ c -> c_last_send c = c_last_ka c -> now - c_last_send c <= c_send_interval c ->
    xtail_eff c now c [].
  Proof.
    intros HQ Hls Hg. constructor; auto using bframe_refl. left. unfold kmax. repeat split; auto. lia.
  Qed.

  Lemma raised_filter_ret o : raised o = false ->
    raised (filter (fun x => match x with ORet _ => false | _ => true end) o) = false.
  Proof.
    unfold raised. induction o as [|x l IH]; [reflexivity|]. cbn [existsb filter]. intros H.
    apply orb_false_iff in H as [H1 H2]. destruct x; cbn [existsb]; rewrite ?IH; auto; discriminate.
  Qed.

  (* UdpClient.update of the sender: the socket yields nothing, a keep-alive of the peer, or junk *)
  Lemma client_tick_X c now r c' o :
    SQ c -> c_status c = CONNECTED -> c_key c = Some k -> c_hello_sent c = 0 -> c_last_send c = c_last_ka c ->
    (c_last_recv c >? 0) && (now >? c_last_recv c + 5 * TICKS) = false ->
    match r with
    | RxNone => True
    | RxBadHeader _ => False
    | RxDgram dg _ => ka_dgram k dg \/ forall ms, open_dgram (Some k) dg <> Ok ms
    end ->
    client_tick e c now r = (c', o) ->
    exists c1 dg, xrecv_eff c dg c1
      /\ ((ka_dgram k dg /\ exists orcs, r = RxDgram dg orcs) \/ (done c1 = true -> done c = true))
      /\ xtail_eff c1 now c' (flat_map dg_of o).
  Proof.
    intros HQ Hst Hk Hh Hls Hnd Hr E. unfold client_tick, client_update in E.
    rewrite Hnd, Hh in E. cbn [Z.eqb negb andb] in E. rewrite Hst in E. cbn [status_eqb status_code Z.eqb app] in E.
    match type of E with context [match ?y with (_, _) => _ end] => destruct y as [c1 o1] eqn:E1 end.
    set (dg0 := {| d_hdr := {| h_to_server := false; h_ctime := 0; h_seq := 0; h_ack := 0; h_type := UNKNOWN;
                              h_len := 0; h_count := 0; h_ackbits := 0 |}; d_body := Bad |}).
    assert (A : exists dg, xrecv_eff c dg c1
                           /\ ((ka_dgram k dg /\ exists orcs, r = RxDgram dg orcs) \/ (done c1 = true -> done c = true))
                           /\ raised o1 = false /\ no_emit o1).
    { destruct r as [|er|dg orcs]; [| destruct Hr |].
      - injection E1 as <- <-. exists dg0. split; [apply xrecv_eff_same; auto with frame|]. split; [right; auto|].
        split; [reflexivity|apply no_emit_nil].
      - destruct (recv c now dg orcs) as [c'' o''] eqn:Er. injection E1 as <- <-.
        destruct (recv_X _ _ _ _ _ _ HQ Hk Hr Er) as (X1 & X2 & X3).
        exists dg. split; [exact X1|]. split.
        + destruct Hr as [Hr|Hr]; [left; split; [exact Hr|eexists; reflexivity]|right].
          rewrite (recv_junk _ _ _ _ Hk Hr) in Er. injection Er as <- _. auto.
        + split; [apply raised_filter_ret; exact X2|apply no_emit_filter; exact X3]. }
    destruct A as (dg & X & Hsrc & Ra & Ne). rewrite Ra in E.
    exists c1, dg. split; [exact X|]. split; [exact Hsrc|].
    destruct X as [Q1 [S1 S2 S3 S4 S5 S6 S7 S8] K1 St1 H1 _ _ _].
    assert (Hls1 : c_last_send c1 = c_last_ka c1) by congruence.
    destruct (now - c_last_send c1 >? c_send_interval c1) eqn:Hg.
    - destruct (build_packet e c1 now) as [c2 pk] eqn:E2.
      destruct (check_timeout false c2 now) as [c3 o3] eqn:E3. injection E as <- <-.
      assert (Hg' : c_send_interval c1 < now - c_last_send c1) by lia.
      destruct (tick_tail_X false c1 now c2 pk c3 o3 Q1 ltac:(congruence) ltac:(congruence) Hls1 Hg' E2 E3) as [T N3].
      rewrite !flat_map_app, (dg_no_emit _ Ne), (dg_no_emit _ N3), app_nil_r. cbn [app].
      destruct pk as [pkt|]; [|exact T].
      replace (emit c2 pkt) with (emit c3 pkt); [exact T|].
      apply ClearP.emit_key_only. apply check_timeout_frame in E3 as [[_ T1 _] _]. exact T1.
    - injection E as <- <-. rewrite (dg_no_emit _ Ne). apply xtail_closed; [exact Q1|exact Hls1|lia].
  Qed.

  (* ServerClientConnection.update of the sender *)
  Lemma server_tick_X c now c' o :
    SQ c -> c_status c = CONNECTED -> c_key c = Some k -> c_last_send c = c_last_ka c ->
    server_tick e c now = (c', o) -> xtail_eff c now c' (flat_map dg_of o).
  Proof.
    intros HQ Hst Hk Hls E. unfold server_tick in E.
    destruct (now - c_last_send c >? c_send_interval c) eqn:Hg.
    - destruct (build_packet e c now) as [c1 pk] eqn:E1.
      destruct (check_timeout true c1 now) as [c2 o2] eqn:E2. injection E as <- <-.
      destruct (tick_tail_X true c now c1 pk c2 o2 HQ Hst Hk Hls ltac:(lia) E1 E2) as [T N2].
      rewrite flat_map_app, (dg_no_emit _ N2). cbn [app]. destruct pk; exact T.
    - injection E as <- <-. apply xtail_closed; [exact HQ|exact Hls|lia].
  Qed.

  (* packet assembly and the time-out sweep leave incoming_messages and the message window alone *)
  Lemma build_packet_rx c now c' r : build_packet e c now = (c', r) ->
    c_incoming c' = c_incoming c /\ c_bf_msg c' = c_bf_msg c.
  Proof.
    unfold build_packet. intros E. destruct (_ <? _); [injection E as <- <-; auto|].
    destruct (build_impl e c now _ _) as [c1 r1] eqn:E1.
    assert (H1 : c_incoming c1 = c_incoming c /\ c_bf_msg c1 = c_bf_msg c).
    { unfold build_impl in E1.
      destruct (match c_pretry_msg c with [] => _ | _ => _ end) as [[prm msgs0] cur0].
      destruct (out_pass e (c_outgoing c) msgs0 cur0) as [[rem msgs] cu].
      match type of E1 with (if ?b then _ else _) = _ => destruct b end; injection E1 as <- _;
        repeat match goal with |- context [match ?x with [] => _ | _ :: _ => _ end] => destruct x end; auto. }
    destruct r1; injection E as <- <-; exact H1.
  Qed.

  (* ServerClientConnection.update of the (idle) receiver *)
  Lemma server_tick_Y y now y' o :
    ep_ok k Ky siy y -> server_tick e y now = (y', o) ->
    ep_ok k Ky siy y' /\ c_bf_pkt y' = c_bf_pkt y /\ c_incoming y' = c_incoming y /\ c_bf_msg y' = c_bf_msg y /\
    Forall (fun dg => ka_dgram k dg /\ ack_of_window (c_bf_pkt y) (d_hdr dg)) (flat_map dg_of o).
  Proof.
    intros H E. destruct (server_tick_ep _ _ _ _ _ _ _ _ H E) as (H' & _ & Hb & Em).
    pose proof (step_window e y (EServerTick now) y' o E) as [_ Hw]. rewrite Hb in Hw.
    split; [exact H'|]. split; [exact Hb|].
    assert (Hrx : c_incoming y' = c_incoming y /\ c_bf_msg y' = c_bf_msg y).
    { unfold server_tick in E. destruct (_ >? _); [|injection E as <- <-; auto].
      destruct (build_packet e y now) as [c1 pk] eqn:E1. destruct (check_timeout true c1 now) as [c2 o2] eqn:E2.
      injection E as <- <-. destruct (build_packet_rx _ _ _ _ E1) as [A1 A2].
      apply check_timeout_frame in E2 as [[_ _ _ _ _ _ _ B2 B1 _] _]. split; congruence. }
    destruct Hrx as [Hi Hm]. split; [exact Hi|]. split; [exact Hm|].
    rewrite <- hdr_dg_of in Hw. rewrite Forall_forall in Hw. apply Forall_forall. intros dg Hin.
    split; [|apply Hw; apply in_map; exact Hin].
    destruct Em as [(_ & Ed & _)|(_ & _ & _ & dg' & Ed & Kd & _)]; rewrite Ed in Hin; [destruct Hin|].
    destruct Hin as [<-|[]]. exact Kd.
  Qed.

  (* UdpClient.update of the (idle) receiver: y1 is its state after the socket has been read *)
  Lemma client_tick_Y y now r y1 o1 y' o :
    ep_ok k Ky siy y -> (c_last_recv y >? 0) && (now >? c_last_recv y + 5 * TICKS) = false ->
    match r with
    | RxNone => y1 = y /\ o1 = []
    | RxBadHeader _ => False
    | RxDgram dg orcs => recv y now dg orcs = (y1, o1)
    end ->
    raised o1 = false -> no_emit o1 -> ep_ok k Ky siy y1 ->
    client_tick e y now r = (y', o) ->
    ep_ok k Ky siy y' /\ c_bf_pkt y' = c_bf_pkt y1 /\ c_incoming y' = c_incoming y1 /\ c_bf_msg y' = c_bf_msg y1 /\
    Forall (fun dg => ka_dgram k dg /\ ack_of_window (c_bf_pkt y1) (d_hdr dg)) (flat_map dg_of o).
  Proof.
    intros H Hnd Hr Ra Ne H1 E. unfold client_tick, client_update in E.
    rewrite Hnd, (eo_hello _ _ _ _ H) in E. cbn [Z.eqb negb andb] in E.
    rewrite (eo_status _ _ _ _ H) in E. cbn [status_eqb status_code Z.eqb app] in E.
    match type of E with context [match ?z with (_, _) => _ end] => destruct z as [c1 o1'] eqn:E1 end.
    assert (A : c1 = y1 /\ raised o1' = false /\ no_emit o1').
    { destruct r as [|er|dg orcs]; [|destruct Hr|].
      - destruct Hr as [-> ->]. injection E1 as <- <-. auto using no_emit_nil.
      - rewrite Hr in E1. injection E1 as <- <-. split; [reflexivity|].
        split; [apply raised_filter_ret; exact Ra|apply no_emit_filter; exact Ne]. }
    destruct A as (-> & Ra' & Ne'). rewrite Ra' in E.
    pose proof (eo_si _ _ _ _ H1) as Hsi.
    destruct (now - c_last_send y1 >? c_send_interval y1) eqn:Hg.
    - destruct (build_packet e y1 now) as [c2 pk] eqn:E2.
      destruct (check_timeout false c2 now) as [c3 o3] eqn:E3. injection E as <- <-.
      assert (Hg' : siy < now - c_last_send y1) by lia.
      destruct (tick_tail_ep _ _ _ _ _ _ _ _ _ _ _ H1 Hg' E2 E3) as (H3 & _ & B & D & N & _).
      destruct (tick_tail_window _ _ _ _ _ _ _ _ E2 E3) as [_ Hw].
      destruct (build_packet_rx _ _ _ _ E2) as [I2 M2].
      pose proof E3 as E3'. apply check_timeout_frame in E3' as [[_ K3 _ _ _ _ _ M3 I3 _] _].
      split; [exact H3|]. split; [exact B|]. split; [congruence|]. split; [congruence|].
      rewrite !flat_map_app, (dg_no_emit _ Ne'), (dg_no_emit _ N), app_nil_r. cbn [app].
      destruct pk as [pkt|]; [|constructor].
      assert (Hem : emit c2 pkt = emit c3 pkt) by (apply ClearP.emit_key_only; congruence).
      specialize (Hw c2). cbn in Hw. rewrite <- hdr_dg_of in Hw. rewrite Forall_forall in Hw.
      apply Forall_forall. intros dg Hin. split; [|apply Hw; apply in_map; exact Hin].
      rewrite Hem in Hin.
      destruct D as [(_ & Ed & _)|(_ & _ & _ & dg' & Ed & Kd & _)]; rewrite Ed in Hin; [destruct Hin|].
      destruct Hin as [<-|[]]. exact Kd.
    - injection E as <- <-. split; [exact H1|]. rewrite (dg_no_emit _ Ne'). auto.
  Qed.

  (* ================= the pair ================= *)
  (* th: the network is healed from th on; t0: the time of send; M: the sender's keep-alive period
     max(keep-alive interval, send interval); tau: the sender's update() period; N0: the sender's
     datagram number at t0; Ky, siy: the receiver's keep-alive and send intervals; inc0: the
     receiver's incoming_messages at t0 *)
  Variables (th t0 M tau N0 : Z) (inc0 : list (Z * list byte)).
  Hypothesis HM : 0 <= M.
  Let T0 := Z.max th t0.

  Definition Dlv (y : conn) : Prop := c_incoming y = inc0 ++ [(mseq, p)].
  Definition acks_sound (acc : list Z) (h : header) : Prop :=
    forall i, 1 <= i <= HALF -> hdr_acks (h_ack h) (h_ackbits h) i = true -> In i acc.

  (* x: sender, y: receiver, wxy / wyx: the two directions of the wire (TimedNet.wdir), tickx: time
     of the sender's latest update() *)
  Record LJ (x y : conn) (wxy wyx : wdir) (tickx : Z) : Prop := {
    j_sq : SQ x;
    j_xst : c_status x = CONNECTED;
    j_xkey : c_key x = Some k;
    j_xhello : c_hello_sent x = 0;
    j_xls : c_last_send x = c_last_ka x;
    j_xM : kmax x = M;
    j_seq : c_seq_send x = wd_n wxy /\ 0 <= N0 <= wd_n wxy /\ wd_n wxy <= HALF;
    j_log : forall i t dg, In (i, t, dg) (wd_log wxy) -> N0 < i <= wd_n wxy /\ h_seq (d_hdr dg) = i /\ xdg dg;
    j_fun : forall i t dg t' dg', In (i, t, dg) (wd_log wxy) -> In (i, t', dg') (wd_log wxy) -> dg = dg';
    j_reg : forall s ks, dget s (c_pcbs x) = Some ks -> In K ks -> exists t dg, In (s, t, dg) (wd_log wxy) /\ carries dg;
    j_y : ep_ok k Ky siy y;
    j_win : exists g, GI y g /\ (forall m acc, g = Some (m, acc) -> m <= wd_n wxy)
              /\ (forall i t dg, In i (accepted_idx g) -> In (i, t, dg) (wd_log wxy) -> carries dg -> Dlv y)
              /\ (forall j t dg, In (j, t, dg) (wd_log wyx) -> ka_dgram k dg /\ acks_sound (accepted_idx g) (d_hdr dg));
    j_mw : (Dlv y /\ mseen y) \/ (c_incoming y = inc0 /\ mfresh y);
    j_dd : done x = true -> Dlv y;
    j_t1 : tickx <= Z.max (c_last_send x) t0 + M;
    j_ph : Dlv y
           \/ (exists i t dg, In (i, t, dg) (wd_log wxy) /\ In (i, t) (wd_pend wxy) /\ carries dg /\ th <= t <= T0 + M + tau)
           \/ (done x = false /\ c_last_send x <= T0) }.

  Lemma Dlv_not_inc0 y : Dlv y -> c_incoming y = inc0 -> False.
  Proof.
    unfold Dlv. intros A B. rewrite B in A. apply (f_equal (@length _)) in A. rewrite app_length in A. cbn in A. lia.
  Qed.

  Lemma mseen_not_fresh y : mseen y -> mfresh y -> False.
  Proof. unfold mseen, mfresh. lia. Qed.

  (* ---------- the sender processes what its socket yields ---------- *)
  Lemma LJ_xrecv x y wxy wyx tickx dg x' s :
    LJ x y wxy wyx tickx -> xrecv_eff x dg x' ->
    ((exists j t, In (j, t, dg) (wd_log wyx)) \/ (done x' = true -> done x = true)) ->
    LJ x' y wxy (wd_present wyx s) tickx.
  Proof.
    intros [A1 A2 A3 A4 A5 A6 A7 A8 A8' A9 A10 A11 A12 A13 A14 A15] [B1 B2 B3 B4 B5 B6 B7 B8] Hsrc.
    pose proof B2 as [S1 S2 S3 S4 S5 S6 S7 S8].
    assert (Hlog : wd_log (wd_present wyx s) = wd_log wyx) by (destruct s; reflexivity).
    assert (Hdd : done x' = true -> Dlv y).
    { intros Hd. destruct Hsrc as [(j & t & Hin)|Hsrc]; [|exact (A13 (Hsrc Hd))].
      destruct (B8 Hd) as [H|(s0 & ks & G1 & G2 & G3)]; [exact (A13 H)|].
      destruct (A9 _ _ G1 G2) as (t1 & dg1 & L1 & C1).
      destruct (A8 _ _ _ L1) as (R1 & _ & _). destruct A7 as (_ & R2 & R3).
      destruct A11 as (g & W1 & W2 & W3 & W4).
      destruct (W4 _ _ _ Hin) as [_ Hs]. apply (W3 s0 t1 dg1); [|exact L1|exact C1].
      apply Hs; [lia|exact G3]. }
    constructor.
    - exact B1.
    - congruence.
    - congruence.
    - congruence.
    - congruence.
    - unfold kmax in *. congruence.
    - rewrite S2. exact A7.
    - exact A8.
    - exact A8'.
    - intros s0 ks H1 H2. apply (A9 s0 ks); [apply B6; exact H1|exact H2].
    - exact A10.
    - destruct A11 as (g & W1 & W2 & W3 & W4). exists g. rewrite Hlog. auto.
    - exact A12.
    - exact Hdd.
    - rewrite S3. exact A14.
    - rewrite S3. destruct A15 as [H|[H|[H1 H2]]]; [left; exact H|right; left; exact H|].
      destruct (done x') eqn:Ed; [left; apply Hdd; reflexivity|right; right; split; [reflexivity|exact H2]].
  Qed.

  (* ---------- the sender's update(): packet assembly, emission, time-out sweep ---------- *)
  Lemma wd_emit_one w now dg : wd_emit w now [dg] = wd_emit1 now w dg. Proof. reflexivity. Qed.

  Lemma LJ_xtail x y wxy wyx tickx now x' dgs :
    LJ x y wxy wyx tickx -> xtail_eff x now x' dgs -> now - tickx <= tau -> wd_n wxy < HALF ->
    LJ x' y (wd_emit wxy now dgs) wyx now.
  Proof.
    intros [A1 A2 A3 A4 A5 A6 A7 A8 A8' A9 A10 A11 A12 A13 A14 A15] [B1 B2 B3 B4 B5] Htau Hshort.
    destruct B2 as [F1 F2 F3 F4 F5 F6 F7 F8 F9 F10 F11].
    destruct A7 as (R1 & R2 & R3).
    assert (HM' : kmax x' = M) by (unfold kmax in *; congruence).
    destruct B5 as [(-> & E1 & E2 & E3 & E4)|(dg & -> & E1 & E2 & E3 & E4 & E5 & E6)].
    - (* nothing emitted *)
      cbn [wd_emit fold_left].
      constructor.
      + exact B1.
      + congruence.
      + congruence.
      + congruence.
      + exact B3.
      + exact HM'.
      + rewrite E2. auto.
      + exact A8.
      + exact A8'.
      + intros s ks H1 H2. apply (A9 s ks); [apply E4; exact H1|exact H2].
      + exact A10.
      + exact A11.
      + exact A12.
      + rewrite B4. exact A13.
      + rewrite E3. lia.
      + rewrite B4, E3. exact A15.
    - (* one datagram emitted: number wd_n wxy + 1 *)
      rewrite wd_emit_one. unfold wd_emit1.
      assert (Hs : seq_succ (c_seq_send x) = wd_n wxy + 1) by (rewrite R1; apply seq_succ_plain; unfold RING, HALF in *; lia).
      assert (Hin_new : forall i t dg0, In (i, t, dg0) (wd_log wxy ++ [(wd_n wxy + 1, now, dg)]) ->
                          In (i, t, dg0) (wd_log wxy) \/ (i = wd_n wxy + 1 /\ t = now /\ dg0 = dg)).
      { intros i t dg0 H. apply in_app_or in H as [H|[H|[]]]; [left; exact H|right]. injection H as <- <- <-. auto. }
      constructor; cbn [wd_n wd_v wd_log wd_pend].
      + exact B1.
      + congruence.
      + congruence.
      + congruence.
      + exact B3.
      + exact HM'.
      + split; [congruence|]. split; [lia|]. unfold HALF in *. lia.
      + intros i t dg0 H. destruct (Hin_new _ _ _ H) as [H'|(-> & -> & ->)].
        * destruct (A8 _ _ _ H') as (P1 & P2 & P3). split; [lia|auto].
        * split; [lia|]. split; [congruence|exact E4].
      + intros i t dg0 t' dg0' H H'.
        destruct (Hin_new _ _ _ H) as [G|(-> & -> & ->)]; destruct (Hin_new _ _ _ H') as [G'|(G1 & G2 & G3)].
        * eapply A8'; eassumption.
        * subst. destruct (A8 _ _ _ G) as (P1 & _). lia.
        * destruct (A8 _ _ _ G') as (P1 & _). lia.
        * congruence.
      + intros s ks H1 H2. destruct (E6 _ _ H1 H2) as [H|(-> & Hc)].
        * destruct (A9 _ _ H H2) as (t & dg0 & L & C). exists t, dg0. split; [apply in_or_app; left; exact L|exact C].
        * exists now, dg. split; [apply in_or_app; right; left; rewrite Hs; reflexivity|exact Hc].
      + exact A10.
      + destruct A11 as (g & W1 & W2 & W3 & W4). exists g. split; [exact W1|]. split; [intros m acc Hg; specialize (W2 _ _ Hg); lia|].
        split; [|exact W4].
        intros i t dg0 Hi H Hc. destruct (Hin_new _ _ _ H) as [H'|(-> & -> & ->)]; [eapply W3; eassumption|].
        exfalso. destruct g as [[m acc]|]; [|destruct Hi]. cbn in Hi, W1. destruct W1 as [HR _].
        pose proof (R_le _ _ _ HR _ Hi). specialize (W2 _ _ eq_refl). lia.
      + exact A12.
      + rewrite B4. exact A13.
      + rewrite E2. lia.
      + rewrite B4, E2. destruct A15 as [H|[(i & t & dg0 & P1 & P2 & P3 & P4)|[H1 H2]]]; [left; exact H| |].
        * right. left. exists i, t, dg0. split; [apply in_or_app; left; exact P1|]. split; [apply in_or_app; left; exact P2|auto].
        * rewrite A5 in *. destruct (Z_le_gt_dec th now) as [Hth|Hth].
          -- right. left. exists (wd_n wxy + 1), now, dg.
             split; [apply in_or_app; right; left; reflexivity|]. split; [apply in_or_app; right; left; reflexivity|].
             split; [apply E5; exact H1|]. subst T0. lia.
          -- right. right. split; [exact H1|]. subst T0. lia.
  Qed.

  (* ---------- the receiver is offered a datagram of the sender ---------- *)
  Lemma GI_insert y g i : GI y g -> 1 <= i <= HALF -> (forall m acc, g = Some (m, acc) -> m <= HALF) ->
    match bf_insert (c_bf_pkt y) i with
    | Err _ => In i (accepted_idx g)
    | Ok bf => forall y', c_bf_pkt y' = bf -> GI y' (ghost_add g i)
    end.
  Proof.
    intros HG Hi Hm. assert (Hw : wire i = i) by (apply wire_small; unfold RING, HALF in *; lia).
    destruct g as [[m acc]|]; cbn [GI ghost_add accepted_idx] in *.
    - destruct HG as [HR Hnb]. specialize (Hm _ _ eq_refl). pose proof (R_m _ _ _ HR) as Hm1.
      pose proof (R_step _ _ _ i HR ltac:(lia) ltac:(lia)) as Hs. rewrite Hw in Hs.
      destruct (spec_dup _ m acc i) eqn:Hd.
      + rewrite Hs. unfold spec_dup in Hd. apply andb_prop in Hd as [Hd _]. apply andb_prop in Hd as [Hd _].
        apply InB_In. exact Hd.
      + destruct Hs as (f' & -> & Hnb' & HR'). intros y' ->. split; [exact HR'|congruence].
    - rewrite HG. destruct (R_first 32 i ltac:(lia) ltac:(lia)) as [E1 E2]. rewrite Hw in E1, E2. rewrite E1.
      intros y' ->. split; [exact E2|reflexivity].
  Qed.

  Lemma accepted_add g i : accepted_idx (ghost_add g i) = i :: accepted_idx g.
  Proof. destruct g as [[m acc]|]; reflexivity. Qed.

  Lemma LJ_yrecv x y wxy wyx tickx i t dg now orcs y' o :
    LJ x y wxy wyx tickx -> In (i, t, dg) (wd_log wxy) -> recv y now dg orcs = (y', o) ->
    LJ x y' (wd_present wxy (SPeer i)) wyx tickx /\ raised o = false /\ no_emit o.
  Proof.
    intros [A1 A2 A3 A4 A5 A6 A7 A8 A8' A9 A10 A11 A12 A13 A14 A15] Hin E.
    destruct (A8 _ _ _ Hin) as (Hi & Hsq & ws & Ho & Hws). destruct A7 as (R1 & R2 & R3).
    assert (Hm : mfresh y \/ mseen y) by (destruct A12 as [[_ H]|[_ H]]; auto).
    destruct (recv_Y _ _ _ _ _ _ _ _ _ A10 Ho Hws Hm E) as (Hr & Ne & Hy' & _ & _ & _ & Hcase).
    split; [|split; [exact Hr|exact Ne]].
    destruct A11 as (g & W1 & W2 & W3 & W4).
    assert (Hgm : forall m acc, g = Some (m, acc) -> m <= HALF) by (intros m acc Hg; specialize (W2 _ _ Hg); lia).
    pose proof (GI_insert y g i W1 ltac:(lia) Hgm) as Hins. rewrite Hsq in Hcase.
    assert (Hlog : wd_log (wd_present wxy (SPeer i)) = wd_log wxy) by reflexivity.
    assert (Hn : wd_n (wd_present wxy (SPeer i)) = wd_n wxy) by reflexivity.
    (* delivered stays delivered *)
    assert (Hstab : c_incoming y' = c_incoming y -> Dlv y -> Dlv y') by (unfold Dlv; congruence).
    (* what accepting a datagram that carries the message does *)
    assert (Hacc : forall bf, bf_insert (c_bf_pkt y) i = Ok bf -> carries dg -> Dlv y').
    { intros bf Eb (ws' & Ho' & _ & Hne). rewrite Eb in Hcase. destruct Hcase as (_ & _ & C1 & C2).
      assert (ws' = ws) by congruence. subst ws'.
      destruct A12 as [[HD Hs]|[HU Hf]].
      - destruct (C1 (or_intror Hs)) as [C _]. apply Hstab; assumption.
      - destruct (C2 Hne Hf) as [C _]. unfold Dlv. rewrite C, HU. reflexivity. }
    destruct (bf_insert (c_bf_pkt y) i) as [bf|er] eqn:Eb.
    - (* accepted *)
      destruct Hcase as (C0 & C0' & C1 & C2).
      assert (Hinc : Dlv y -> Dlv y').
      { intros HD. destruct A12 as [[_ Hs]|[HU _]]; [|exfalso; eapply Dlv_not_inc0; eassumption].
        destruct (C1 (or_intror Hs)) as [C _]. apply Hstab; assumption. }
      constructor; rewrite ?Hlog, ?Hn; auto.
      + exists (ghost_add g i). split; [apply Hins; exact C0|]. split; [|split].
        * intros m acc Hg. destruct g as [[m0 acc0]|]; cbn in Hg; injection Hg as <- <-; [specialize (W2 _ _ eq_refl)|]; lia.
        * intros i' t' dg' Hi' Hin' Hc. rewrite accepted_add in Hi'. destruct Hi' as [<-|Hi'].
          -- assert (dg' = dg) by (eapply A8'; eassumption). subst dg'. eapply Hacc; [reflexivity|exact Hc].
          -- apply Hinc. eapply W3; eassumption.
        * intros j t' dg' Hj. destruct (W4 _ _ _ Hj) as [P1 P2]. split; [exact P1|].
          intros i' Hi' Ha. rewrite accepted_add. right. apply P2; assumption.
      + destruct ws as [|w ws'] eqn:Ews.
        * destruct (C1 (or_introl eq_refl)) as [Ci Cm]. unfold Dlv, mseen, mfresh in *. rewrite Ci, Cm. exact A12.
        * destruct A12 as [[HD Hs]|[HU Hf]].
          -- destruct (C1 (or_intror Hs)) as [Ci Cm]. left. unfold Dlv, mseen in *. rewrite Ci, Cm. auto.
          -- destruct (C2 ltac:(discriminate) Hf) as [Ci Cm]. left. split; [|exact Cm]. unfold Dlv. rewrite Ci, HU. reflexivity.
      + destruct A15 as [H|[(i0 & t0' & dg0 & P1 & P2 & P3 & P4)|H]]; [left; auto| |right; right; exact H].
        destruct (Z.eq_dec i0 i) as [->|Hne].
        * left. assert (dg0 = dg) by (eapply A8'; eassumption). subst dg0. eapply Hacc; [reflexivity|exact P3].
        * right. left. exists i0, t0', dg0. split; [exact P1|]. split; [|auto].
          cbn [wd_present wd_pend]. apply filter_In. split; [exact P2|]. cbn. lia.
    - (* refused: a copy of it was accepted before *)
      destruct Hcase as (C0 & Ci & Cm & _).
      assert (Hinc : Dlv y -> Dlv y') by (apply Hstab; exact Ci).
      constructor; rewrite ?Hlog, ?Hn; auto.
      + exists g. split; [eapply GI_same; [exact C0|exact W1]|]. split; [exact W2|]. split; [|exact W4].
        intros i' t' dg' Hi' Hin' Hc. apply Hinc. eapply W3; eassumption.
      + unfold Dlv, mseen, mfresh in *. rewrite Ci, Cm. exact A12.
      + destruct A15 as [H|[(i0 & t0' & dg0 & P1 & P2 & P3 & P4)|H]]; [left; auto| |right; right; exact H].
        destruct (Z.eq_dec i0 i) as [->|Hne].
        * left. apply Hinc. eapply W3; [exact Hins|exact P1|exact P3].
        * right. left. exists i0, t0', dg0. split; [exact P1|]. split; [|auto].
          cbn [wd_present wd_pend]. apply filter_In. split; [exact P2|]. cbn. lia.
  Qed.

  (* ... or nothing / junk: only the drop counter moves *)
  Lemma LJ_ysame x y wxy wyx tickx y' s :
    LJ x y wxy wyx tickx -> same_sess y y' -> quiet y' ->
    (match s with SPeer _ => False | _ => True end) ->
    LJ x y' (wd_present wxy s) wyx tickx.
  Proof.
    intros [A1 A2 A3 A4 A5 A6 A7 A8 A8' A9 A10 A11 A12 A13 A14 A15] S Q Hs.
    assert (Hw : wd_present wxy s = wxy) by (destruct s; [reflexivity|destruct Hs|reflexivity]). rewrite Hw.
    pose proof S as [_ T1 T2 T3 T4 T5 T6 T7 T8 T9].
    constructor; auto.
    - eapply ep_ok_sess; eassumption.
    - destruct A11 as (g & W1 & W2 & W3 & W4). exists g. split; [eapply GI_same; eassumption|]. split; [exact W2|]. split; [|exact W4].
      intros i t dg H1 H2 H3. unfold Dlv. rewrite T8. eapply W3; eassumption.
    - unfold Dlv, mseen, mfresh in *. rewrite T8, T7. exact A12.
    - intros H. unfold Dlv. rewrite T8. apply A13. exact H.
    - unfold Dlv in *. rewrite T8. exact A15.
  Qed.

  (* ---------- the receiver's update(): at most a keep-alive whose ack fields are its window ---------- *)
  Lemma LJ_ytick x y wxy wyx tickx y' now dgs :
    LJ x y wxy wyx tickx -> ep_ok k Ky siy y' -> c_bf_pkt y' = c_bf_pkt y -> c_incoming y' = c_incoming y ->
    c_bf_msg y' = c_bf_msg y ->
    Forall (fun dg => ka_dgram k dg /\ ack_of_window (c_bf_pkt y) (d_hdr dg)) dgs ->
    LJ x y' wxy (wd_emit wyx now dgs) tickx.
  Proof.
    intros [A1 A2 A3 A4 A5 A6 A7 A8 A8' A9 A10 A11 A12 A13 A14 A15] Hy' Hb Hi Hm Hd.
    constructor; auto.
    - destruct A11 as (g & W1 & W2 & W3 & W4). exists g. split; [eapply GI_same; eassumption|]. split; [exact W2|]. split.
      + intros i t dg H1 H2 H3. unfold Dlv. rewrite Hi. eapply W3; eassumption.
      + assert (Hnew : forall dg, In dg dgs -> ka_dgram k dg /\ acks_sound (accepted_idx g) (d_hdr dg)).
        { intros dg Hin. rewrite Forall_forall in Hd. destruct (Hd _ Hin) as [P1 P2]. split; [exact P1|].
          pose proof (GI_BAok _ _ _ W1 P2) as Hok. intros i Hi' Ha.
          assert (Hw : wire i = i) by (apply wire_small; unfold RING, HALF in *; lia).
          destruct g as [[m acc]|].
          - destruct Hok as (_ & Hn & _). cbn [accepted_idx]. specialize (W2 _ _ eq_refl). destruct A7 as (_ & _ & R3).
            destruct W1 as [HR _]. pose proof (R_m _ _ _ HR).
            apply (Hn m acc eq_refl i); [lia|lia|rewrite Hw; exact Ha].
          - destruct Hok as [E1 E2]. rewrite E1, E2, hdr_acks_zero in Ha by (unfold RING, HALF in *; lia). discriminate. }
        clear Hd. revert wyx W4. induction dgs as [|dg r IH]; intros wyx W4; [exact W4|].
        cbn [wd_emit fold_left]. apply IH; [intros dg' H; apply Hnew; right; exact H|].
        intros j t dg' Hin. unfold wd_emit1 in Hin. cbn [wd_log] in Hin. apply in_app_or in Hin as [Hin|[Hin|[]]]; [eapply W4; exact Hin|].
        injection Hin as _ _ <-. apply Hnew. left. reflexivity.
    - unfold Dlv, mseen, mfresh in *. rewrite Hi, Hm. exact A12.
    - intros H. unfold Dlv. rewrite Hi. apply A13. exact H.
    - unfold Dlv in *. rewrite Hi. exact A15.
  Qed.


  (* until it is delivered the sender holds the message: not done, and queued or scheduled for a retry *)
  Lemma LJ_custody x y wxy wyx tickx : LJ x y wxy wyx tickx -> c_incoming y = inc0 ->
    done x = false /\
    ((exists m, In m (c_outgoing x) /\ m_seq m = mseq /\ m_payload m = p /\ m_retry m = RTimeout /\ m_cb m = Some K)
     \/ (exists m, In (mseq, m) (c_pretry_msg x) /\ m_payload m = p /\ m_cb m = Some K)).
  Proof.
    intros [A1 A2 A3 A4 A5 A6 A7 A8 A8' A9 A10 A11 A12 A13 A14 A15] Hu.
    assert (Hd : done x = false).
    { destruct (done x) eqn:Ed; [|reflexivity]. exfalso. eapply Dlv_not_inc0; [apply A13; reflexivity|exact Hu]. }
    split; [exact Hd|]. destruct A1 as [Q1 Q2 Q3 Q4 Q5].
    destruct Q5 as [Q5|[Q5|Q5]]; [congruence| |].
    - left. destruct (c_outgoing x) as [|m q] eqn:Eo; [contradiction|]. inversion Q1 as [|? ? (a & ->) _]; subst.
      exists (mk a). split; [left; reflexivity|]. cbn. auto.
    - right. destruct Q2 as [Q2|Q2]; [contradiction|]. rewrite Q2. eexists. split; [left; reflexivity|]. cbn. auto.
  Qed.
End OneMessage.
