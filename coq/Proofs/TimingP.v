(* TimingP.v — C12: keep-alive cadence, liveness clock, DROPPED / connect time-out, and the
   configuration glue (UdpClient setters, ServerContext settings). *)
From Coq Require Import Lia ZifyBool.
From RecordUpdate Require Import RecordUpdate.
From Model Require Import Base SeqNum Wire Conn Client.
From Proofs Require Import Tac SeqNumP ConnFrameP NonceP PackP.
Import RecordSetNotations.
Open Scope Z_scope.

(* ---------- keep-alive cadence ---------- *)
(* an idle CONNECTED connection whose keep-alive timer has expired builds a KEEP_ALIVE *)
Lemma build_impl_idle e c now delay :
  c_status c = CONNECTED -> c_outgoing c = [] -> c_pretry_msg c = [] ->
  exists c' h, build_impl e c now true delay = (c', Some (h, []))
    /\ h_type h = KEEP_ALIVE /\ h_count h = 0 /\ h_seq h = seq_succ (c_seq_send c)
    /\ h_ack h = bf_cur (c_bf_pkt c) /\ h_ackbits h = bf_bits (c_bf_pkt c)
    /\ c_key c' = c_key c /\ c_status c' = CONNECTED /\ c_outgoing c' = [] /\ c_pretry_msg c' = []
    /\ c_last_recv c' = c_last_recv c.
Proof.
  intros Hs Ho Hp. unfold build_impl. rewrite Hp, Ho. cbn [out_pass].
  cbn. rewrite Hs. cbn. eexists. eexists. split; [reflexivity|]. cbn. repeat split; auto.
Qed.

Lemma build_packet_idle e c now :
  c_status c = CONNECTED -> c_outgoing c = [] -> c_pretry_msg c = [] ->
  c_send_interval c <= now - c_last_send c -> c_ka_interval c < now - c_last_ka c ->
  exists c' h, build_packet e c now = (c', Some (h, []))
    /\ h_type h = KEEP_ALIVE /\ c_last_send c' = now /\ c_last_ka c' = now
    /\ c_key c' = c_key c /\ c_status c' = CONNECTED /\ c_outgoing c' = [] /\ c_pretry_msg c' = []
    /\ c_last_recv c' = c_last_recv c.
Proof.
  intros Hs Ho Hp Hsi Hka. unfold build_packet.
  assert (now - c_last_send c <? c_send_interval c = false) as -> by lia.
  assert (now - c_last_ka c >? c_ka_interval c = true) as -> by lia.
  destruct (build_impl_idle e c now (c_ka_interval c) Hs Ho Hp) as (c1 & h & -> & Ht & _ & _ & _ & _ & K & S & O & P & R).
  eexists. eexists. split; [reflexivity|]. cbn. repeat split; auto.
Qed.

(* whenever the keep-alive timer and the send-rate timer have both expired, a tick of a
   CONNECTED connection assembles a packet (whatever is queued) *)
Lemma build_packet_due e c now c' r :
  c_status c = CONNECTED -> no_unknown c ->
  c_send_interval c <= now - c_last_send c -> c_ka_interval c < now - c_last_ka c ->
  build_packet e c now = (c', r) -> r <> None /\ c_last_send c' = now /\ c_last_ka c' = now.
Proof.
  intros Hs Hnu Hsi Hka E. unfold build_packet in E.
  assert (now - c_last_send c <? c_send_interval c = false) as Hr by lia. rewrite Hr in E.
  assert (now - c_last_ka c >? c_ka_interval c = true) as Hk by lia. rewrite Hk in E.
  destruct (build_impl e c now true (c_ka_interval c)) as [c1 r1] eqn:E1.
  destruct r1 as [pk|].
  - injection E as <- <-. cbn. repeat split; auto. discriminate.
  - exfalso. (* build_impl cannot return None: with nothing selected it builds a keep-alive *)
    unfold build_impl in E1.
    destruct (match c_pretry_msg c with [] => _ | _ => _ end) as [[prm msgs0] cur0] eqn:E0.
    destruct (out_pass e (c_outgoing c) msgs0 cur0) as [[rem msgs] cu] eqn:E2.
    assert (Hin0 : forall m, In m msgs0 -> In m (map snd (c_pretry_msg c))).
    { destruct (c_pretry_msg c) eqn:Ep; [injection E0 as <- <- <-; intros m []|].
      destruct (retry_pass_spec _ _ _ _ _ _ _ _ _ _ (packed_ok_nil e) E0) as (ch & -> & _ & Hin).
      intros m Hm. apply sort_items_in. apply Hin. exact Hm. }
    assert (Hok0 : packed_ok e msgs0 cur0).
    { destruct (c_pretry_msg c) eqn:Ep; [injection E0 as <- <- <-; apply packed_ok_nil|].
      destruct (retry_pass_spec _ _ _ _ _ _ _ _ _ _ (packed_ok_nil e) E0) as (ch & -> & H & _). exact H. }
    destruct (out_pass_spec _ _ _ _ _ _ _ Hok0 E2) as (ch & Hms & Hil & _).
    match type of E1 with (if ?b then _ else _) = _ => destruct b eqn:Hty; [|discriminate] end.
    destruct msgs as [|m0 msgs'].
    + cbn in Hty. rewrite Hs in Hty. cbn in Hty. discriminate.
    + assert (Hm0 : In m0 (msgs0 ++ ch)) by (rewrite <- Hms; left; reflexivity).
      assert (Hu : m_type m0 <> UNKNOWN).
      { apply Hnu. apply in_app_or in Hm0 as [H|H]; [right; apply Hin0; exact H|].
        left. apply (Interleave_in_l _ _ _ _ Hil H). }
      destruct (m_type m0); try discriminate. apply Hu. reflexivity.
Qed.

(* the server-side tick of an idle connection: a sealed KEEP_ALIVE leaves *)
Theorem server_tick_keepalive e c now c' o :
  c_status c = CONNECTED -> c_outgoing c = [] -> c_pretry_msg c = [] ->
  c_send_interval c < now - c_last_send c -> c_ka_interval c < now - c_last_ka c ->
  server_tick e c now = (c', o) ->
  (exists h, In (OEmit h (c_key c) []) o /\ h_type h = KEEP_ALIVE) /\ c_last_ka c' = now /\ c_last_send c' = now.
Proof.
  intros Hs Ho Hp Hsi Hka E. unfold server_tick in E.
  assert (now - c_last_send c >? c_send_interval c = true) as Hg by lia. rewrite Hg in E.
  destruct (build_packet_idle e c now Hs Ho Hp ltac:(lia) Hka) as (c1 & h & E1 & Ht & L1 & L2 & K1 & _).
  rewrite E1 in E. destruct (check_timeout true c1 now) as [c2 o2] eqn:E2. injection E as <- <-.
  apply check_timeout_frame in E2 as [[[_ _ S3 S4 _ _ _ _] SK] _].
  split; [|split; congruence].
  unfold emit. cbn [map encode_msgs]. rewrite SK, K1.
  destruct (c_key c) as [k|].
  - cbn [h_type]. rewrite Ht. cbn. eexists. split; [apply in_or_app; right; left; reflexivity|cbn; first [exact Ht|reflexivity]].
  - eexists. split; [apply in_or_app; right; left; reflexivity|cbn; first [exact Ht|reflexivity]].
Qed.

(* the client-side tick (UdpClient.update with nothing to read) *)
Theorem client_tick_keepalive e c now c' o :
  c_status c = CONNECTED -> c_outgoing c = [] -> c_pretry_msg c = [] -> c_hello_sent c = 0 ->
  (c_last_recv c <= 0 \/ now <= c_last_recv c + 5 * TICKS) ->
  c_send_interval c < now - c_last_send c -> c_ka_interval c < now - c_last_ka c ->
  client_tick e c now RxNone = (c', o) ->
  (exists h, In (OEmit h (c_key c) []) o /\ h_type h = KEEP_ALIVE) /\ c_last_ka c' = now /\ c_last_send c' = now.
Proof.
  intros Hs Ho Hp Hh Hr Hsi Hka E. unfold client_tick, client_update in E.
  assert ((c_last_recv c >? 0) && (now >? c_last_recv c + 5 * TICKS) = false) as Hd by lia. rewrite Hd in E.
  rewrite Hh in E. cbn [Z.eqb negb andb] in E. rewrite Hs in E. cbn [status_eqb status_code Z.eqb] in E.
  cbn [raised existsb] in E.
  assert (now - c_last_send c >? c_send_interval c = true) as Hg by lia. rewrite Hg in E.
  destruct (build_packet_idle e c now Hs Ho Hp ltac:(lia) Hka) as (c1 & h & E1 & Ht & L1 & L2 & K1 & _).
  rewrite E1 in E. destruct (check_timeout false c1 now) as [c2 o2] eqn:E2. injection E as <- <-.
  apply check_timeout_frame in E2 as [[[_ _ S3 S4 _ _ _ _] SK] _].
  split; [|split; congruence].
  unfold emit. cbn [map encode_msgs app]. rewrite K1.
  destruct (c_key c) as [k|].
  - cbn [h_type]. rewrite Ht. cbn. eexists. split; [left; reflexivity|cbn; first [exact Ht|reflexivity]].
  - eexists. split; [left; reflexivity|cbn; first [exact Ht|reflexivity]].
Qed.

(* any CONNECTED connection, whatever is queued: after a tick, either a packet was assembled at
   this tick or the last assembly is at most max(keep-alive interval, send interval) old *)
Theorem server_tick_cadence e c now c' o :
  c_status c = CONNECTED -> no_unknown c -> c_last_send c = c_last_ka c ->
  server_tick e c now = (c', o) ->
  c_last_send c' = c_last_ka c' /\
  (c_last_ka c' = now \/
   (c_last_ka c' = c_last_ka c /\ now - c_last_ka c <= Z.max (c_ka_interval c) (c_send_interval c))).
Proof.
  intros Hs Hnu Heq E. unfold server_tick in E.
  destruct (now - c_last_send c >? c_send_interval c) eqn:Hg.
  2:{ injection E as <- <-. split; [exact Heq|right; split; [reflexivity|lia]]. }
  destruct (build_packet e c now) as [c1 pk] eqn:E1.
  destruct (check_timeout true c1 now) as [c2 o2] eqn:E2. injection E as <- <-.
  apply check_timeout_frame in E2 as [[[_ _ S3 S4 _ _ _ _] _] _]. rewrite S3, S4.
  destruct (c_ka_interval c <? now - c_last_ka c) eqn:Hk.
  - destruct (build_packet_due e c now c1 pk Hs Hnu ltac:(lia) ltac:(lia) E1) as (_ & L1 & L2).
    split; [congruence|left; exact L2].
  - unfold build_packet in E1. destruct (_ <? _) eqn:Hr; [injection E1 as <- <-; split; [exact Heq|right; split; [reflexivity|lia]]|].
    destruct (build_impl e c now _ _) as [c1' r1] eqn:E3.
    pose proof (build_impl_seq _ _ _ _ _ _ _ E3) as (_ & _ & L & _).
    assert (Lk : c_last_ka c1' = c_last_ka c).
    { unfold build_impl in E3.
      destruct (match c_pretry_msg c with [] => _ | _ => _ end) as [[prm msgs0] cur0].
      destruct (out_pass e (c_outgoing c) msgs0 cur0) as [[rem msgs] cu].
      match type of E3 with (if ?b then _ else _) = _ => destruct b end; injection E3 as <- _;
        repeat match goal with |- context [match ?x with [] => _ | _ :: _ => _ end] => destruct x end; reflexivity. }
    destruct r1 as [pk1|]; injection E1 as <- <-; cbn.
    + split; [reflexivity|left; reflexivity].
    + split; [congruence|right; split; [exact Lk|lia]].
Qed.

(* ---------- the liveness clock ---------- *)
Definition accepted (o : list out) : Prop := In (ORet true) o.

Theorem recv_clock c now d orcs c' o :
  recv c now d orcs = (c', o) ->
  (accepted o -> c_last_recv c' = now) /\ (~ accepted o -> ~ raised o = true -> c_last_recv c' = c_last_recv c).
Proof.
  unfold recv, accepted. intros E.
  destruct (keyless_refuses c (d_hdr d)).
  { injection E as <- <-. split; [intros [H|[]]; discriminate|intros; reflexivity]. }
  destruct (open_dgram (c_key c) d) as [ms|].
  2:{ injection E as <- <-. split; [intros [H|[]]; discriminate|intros; reflexivity]. }
  destruct (bf_insert (c_bf_pkt c) _) as [bf|].
  2:{ injection E as <- <-. split; [intros [H|[]]; discriminate|intros; reflexivity]. }
  match type of E with context [handle_ack_bits ?c0 _] => set (cc := c0) in E end.
  destruct (handle_ack_bits cc (d_hdr d)) as [c1 o1] eqn:E1.
  destruct (recv_msgs c1 now ms orcs) as [c2 o2] eqn:E2. injection E as <- <-.
  apply handle_ack_bits_frame in E1 as [[_ _ _ R1] _]. apply recv_msgs_clock in E2 as (R2 & _).
  assert (Hc : c_last_recv c2 = now) by (rewrite R2, R1; reflexivity).
  split; [intros _; exact Hc|].
  intros Hna Hnr. exfalso. apply Hna. apply in_or_app. right. apply in_or_app. right.
  destruct (raised o2) eqn:Er; [|left; reflexivity].
  exfalso. apply Hnr. unfold raised in *. rewrite !existsb_app, Er. rewrite !orb_true_r. reflexivity.
Qed.

(* the server's sweep: exactly when DISCONNECTED or silent for the configured time *)
Theorem sweep_drops_spec timeout c now :
  sweep_drops timeout c now = true <-> (c_status c = DISCONNECTED \/ timeout <= now - c_last_recv c).
Proof.
  unfold sweep_drops, timedout. rewrite orb_true_iff. split.
  - intros [H|H]; [left; destruct (c_status c); try discriminate; reflexivity|right; lia].
  - intros [H|H]; [left; rewrite H; reflexivity|right; lia].
Qed.

(* ---------- the client: DROPPED and the connect time-out ---------- *)
Theorem client_update_spec c now c' o :
  client_update c now = (c', o) ->
  let silent := (c_last_recv c >? 0) && (now >? c_last_recv c + 5 * TICKS) in
  let expired := negb (c_hello_sent c =? 0) && (now - c_hello_sent c >? c_temp_timeout c) in
  c_status c' = (if expired then DISCONNECTED else if silent then DROPPED else c_status c) /\
  c_hello_sent c' = (if expired then 0 else c_hello_sent c) /\
  o = (if expired && c_conn_cb c then [OConnCb false] else []) /\
  c_conn_cb c' = c_conn_cb c /\ c_key c' = c_key c /\ c_last_recv c' = c_last_recv c.
Proof.
  unfold client_update. intros E. cbn zeta.
  destruct ((c_last_recv c >? 0) && (now >? c_last_recv c + 5 * TICKS)); cbn in E;
    destruct (negb (c_hello_sent c =? 0) && (now - c_hello_sent c >? c_temp_timeout c));
    injection E as <- <-; cbn; destruct (c_conn_cb c); repeat split; reflexivity.
Qed.

(* ---------- configuration is only changed by configuration ---------- *)
Record same_cfg (c c' : conn) : Prop := {
  cf_ka : c_ka_interval c' = c_ka_interval c;
  cf_ot : c_out_timeout c' = c_out_timeout c;
  cf_tt : c_temp_timeout c' = c_temp_timeout c;
  cf_si : c_send_interval c' = c_send_interval c }.
Lemma same_cfg_refl c : same_cfg c c. Proof. constructor; reflexivity. Qed.
Lemma same_cfg_trans a b c : same_cfg a b -> same_cfg b c -> same_cfg a c.
Proof. intros [] []. constructor; congruence. Qed.
Lemma core_cfg c c' : same_core c c' -> same_cfg c c'.
Proof. intros []. constructor; assumption. Qed.

Lemma build_impl_cfg e c now ka delay c' r : build_impl e c now ka delay = (c', r) ->
  same_cfg c c' /\ c_last_recv c' = c_last_recv c /\ c_status c' = c_status c /\ c_hello_sent c' = c_hello_sent c
  /\ c_conn_cb c' = c_conn_cb c.
Proof.
  unfold build_impl. intros E.
  destruct (match c_pretry_msg c with [] => _ | _ => _ end) as [[prm msgs0] cur0].
  destruct (out_pass e (c_outgoing c) msgs0 cur0) as [[rem msgs] cu].
  match type of E with (if ?b then _ else _) = _ => destruct b end; injection E as <- _;
    repeat match goal with |- context [match ?x with [] => _ | _ :: _ => _ end] => destruct x end;
    (split; [constructor; reflexivity|repeat split; reflexivity]).
Qed.

Lemma build_packet_cfg e c now c' r : build_packet e c now = (c', r) ->
  same_cfg c c' /\ c_last_recv c' = c_last_recv c /\ c_status c' = c_status c /\ c_hello_sent c' = c_hello_sent c
  /\ c_conn_cb c' = c_conn_cb c.
Proof.
  unfold build_packet. intros E. destruct (_ <? _); [injection E as <- <-; split; [apply same_cfg_refl|auto]|].
  destruct (build_impl e c now _ _) as [c1 r1] eqn:E1. apply build_impl_cfg in E1 as ([A1 A2 A3 A4] & B & C & D & F).
  destruct r1; injection E as <- <-; cbn; (split; [constructor; assumption|auto]).
Qed.

Definition is_setcfg (x : ev) : bool := match x with ESetCfg _ _ => true | _ => false end.

Lemma step_cfg e c x c' o : is_setcfg x = false -> step e c x = (c', o) -> same_cfg c c'.
Proof.
  intros Hx E. destruct x; try discriminate; cbn [step] in E.
  - apply send_frame in E as [[H] _]. apply core_cfg. exact H.
  - unfold client_tick in E.
    destruct (client_update c now) as [c0 o0] eqn:E0. apply client_update_frame in E0 as (H0 & _ & _).
    apply core_cfg in H0.
    destruct (status_eqb (c_status c0) DROPPED); [injection E as <- <-; exact H0|].
    match type of E with context [match ?y with (_, _) => _ end] => destruct y as [c1 o1] eqn:E1 end.
    assert (H1 : same_cfg c0 c1).
    { destruct r as [|er|d orcs]; try (injection E1 as <- <-; apply same_cfg_refl).
      destruct (recv c0 now d orcs) as [c'' o''] eqn:Er. injection E1 as <- <-.
      apply recv_frame in Er as [A _]. apply core_cfg. exact A. }
    destruct (raised o1); [injection E as <- <-; eapply same_cfg_trans; eassumption|].
    destruct (_ >? _); [|injection E as <- <-; eapply same_cfg_trans; eassumption].
    destruct (build_packet e c1 now) as [c2 pk] eqn:E2.
    destruct (check_timeout false c2 now) as [c3 o3] eqn:E3. injection E as <- <-.
    apply build_packet_cfg in E2 as [H2 _]. apply check_timeout_frame in E3 as [[H3] _]. apply core_cfg in H3.
    eapply same_cfg_trans; [exact H0|]. eapply same_cfg_trans; [exact H1|]. eapply same_cfg_trans; eassumption.
  - unfold server_tick in E. destruct (_ >? _); [|injection E as <- <-; apply same_cfg_refl].
    destruct (build_packet e c now) as [c1 pk] eqn:E1.
    destruct (check_timeout true c1 now) as [c2 o2] eqn:E2. injection E as <- <-.
    apply build_packet_cfg in E1 as [H1 _]. apply check_timeout_frame in E2 as [[H2] _]. apply core_cfg in H2.
    eapply same_cfg_trans; eassumption.
  - apply recv_frame in E as [A _]. apply core_cfg. exact A.
  - injection E as <- <-. apply core_cfg. apply disconnect_core.
  - injection E as <- <-. unfold client_hello, send_type. constructor; reflexivity.
  - injection E as <- <-. constructor; reflexivity.
  - injection E as <- <-. constructor; reflexivity.
Qed.

(* ---------- UdpClient: the connection always has the settings last made ---------- *)
Definition ucfg_inv (u : uclient) : Prop :=
  match u_conn u with
  | Some c => c_ka_interval c = u_ka u /\ c_temp_timeout c = u_tt u /\ c_out_timeout c = u_ot u
  | None => True
  end.

Definition uop_ok (op : uop) : Prop := match op with UConn x => is_setcfg x = false | _ => True end.

Lemma ustep_cfg e u op u' o : ucfg_inv u -> uop_ok op -> ustep e u op = (u', o) -> ucfg_inv u'.
Proof.
  unfold ucfg_inv. intros I Hok E. destruct op; cbn [ustep] in E.
  - injection E as <- <-. unfold on_conn. cbn. destruct (u_conn u) as [c|]; [|exact I]. cbn. tauto.
  - injection E as <- <-. unfold on_conn. cbn. destruct (u_conn u) as [c|]; [|exact I]. cbn. tauto.
  - injection E as <- <-. unfold on_conn. cbn. destruct (u_conn u) as [c|]; [|exact I]. cbn. tauto.
  - injection E as <- <-. cbn. unfold client_hello, send_type. cbn. auto.
  - destruct (u_conn u) as [c|] eqn:Ec; [|injection E as <- <-; rewrite Ec; exact I].
    destruct (step e c x) as [c' o'] eqn:Es. injection E as <- <-. cbn.
    destruct (step_cfg _ _ _ _ _ Hok Es) as [A B C D]. destruct I as (I1 & I2 & I3). repeat split; congruence.
Qed.

(* the last value given to each setter, in any order relative to connect *)
Definition last_ka (ops : list uop) (d : Z) : Z :=
  fold_left (fun acc op => match op with USetKeepAlive v => v | _ => acc end) ops d.
Definition last_tt (ops : list uop) (d : Z) : Z :=
  fold_left (fun acc op => match op with USetConnTimeout v => v | _ => acc end) ops d.
Definition last_ot (ops : list uop) (d : Z) : Z :=
  fold_left (fun acc op => match op with USetMsgTimeout v => v | _ => acc end) ops d.

Lemma ustep_fields e u op u' o : ustep e u op = (u', o) ->
  u_ka u' = match op with USetKeepAlive v => v | _ => u_ka u end /\
  u_tt u' = match op with USetConnTimeout v => v | _ => u_tt u end /\
  u_ot u' = match op with USetMsgTimeout v => v | _ => u_ot u end.
Proof.
  intros E. destruct op; cbn [ustep] in E; try (injection E as <- <-; unfold on_conn; cbn; auto).
  destruct (u_conn u); [destruct (step e c x)|]; injection E as <- <-; cbn; auto.
Qed.

Theorem setters_effective e ops : forall u u' os,
  ucfg_inv u -> Forall uop_ok ops -> urun e u ops = (u', os) ->
  ucfg_inv u' /\ u_ka u' = last_ka ops (u_ka u) /\ u_tt u' = last_tt ops (u_tt u) /\ u_ot u' = last_ot ops (u_ot u).
Proof.
  induction ops as [|op r IH]; intros u u' os I Hok E; cbn [urun] in E.
  - injection E as <- <-. cbn. auto.
  - inversion Hok as [|? ? H1 H2]; subst.
    destruct (ustep e u op) as [u1 o] eqn:E1. destruct (urun e u1 r) as [u2 os'] eqn:E2. injection E as <- <-.
    pose proof (ustep_cfg _ _ _ _ _ I H1 E1) as I1. destruct (ustep_fields _ _ _ _ _ E1) as (F1 & F2 & F3).
    destruct (IH _ _ _ I1 H2 E2) as (I2 & G1 & G2 & G3).
    unfold last_ka, last_tt, last_ot in *. cbn [fold_left]. rewrite <- F1, <- F2, <- F3. auto.
Qed.

(* ---------- ServerContext ---------- *)
Definition slast (f : sop -> option Z) (ops : list sop) (d : Z) : Z :=
  fold_left (fun acc op => match f op with Some v => v | None => acc end) ops d.

Theorem server_settings_effective ops : forall s,
  let s' := fold_left sstep ops s in
  s_ka s' = slast (fun op => match op with SSetKeepAlive v => Some v | _ => None end) ops (s_ka s) /\
  s_conn_timeout s' = slast (fun op => match op with SSetConnTimeout v => Some v | _ => None end) ops (s_conn_timeout s) /\
  s_temp_timeout s' = slast (fun op => match op with SSetTempTimeout v => Some v | _ => None end) ops (s_temp_timeout s) /\
  s_ot s' = slast (fun op => match op with SSetMsgTimeout v => Some v | _ => None end) ops (s_ot s) /\
  c_ka_interval (new_server_conn s') = s_ka s' /\ c_out_timeout (new_server_conn s') = s_ot s'.
Proof.
  induction ops as [|op r IH]; intros s; cbn [fold_left]; [cbn; auto 10|].
  specialize (IH (sstep s op)). cbn zeta in IH. unfold slast in *. cbn [fold_left].
  destruct op; cbn in *; exact IH.
Qed.

(* ---------- the connect callback reports failure at most once per connect ---------- *)
Definition nocf (o : list out) : Prop := ~ In (OConnCb false) o.

Lemma nocf_app a b : nocf a -> nocf b -> nocf (a ++ b).
Proof. intros A B H. apply in_app_or in H as [H|H]; auto. Qed.
Lemma cb_only_nocf o : cb_only o -> nocf o.
Proof. intros H Hin. unfold cb_only in H. rewrite Forall_forall in H. apply H in Hin. exact Hin. Qed.
Lemma nocf_nil : nocf []. Proof. intros []. Qed.

Lemma recv_handshake_nocf c ty o c' os : recv_handshake c ty o = (c', os) -> nocf os.
Proof.
  unfold recv_handshake, nocf. intros E.
  destruct ty, (c_server c); try (injection E as <- <-; intros []).
  - destruct (negb _); [injection E as <- <-; intros [H|[]]; discriminate|].
    destruct (negb _); injection E as <- <-; intros [].
  - destruct (o_parse o =? 6); [injection E as <- <-; intros [H|[]]; discriminate|].
    destruct (negb _); [injection E as <- <-; intros [H|[]]; discriminate|].
    injection E as <- <-. destruct (c_conn_cb c); [intros [H|[]]; discriminate|intros []].
  - destruct (negb _); [injection E as <- <-; intros [H|[]]; discriminate|].
    destruct (o_temp_token o) as [t|]; [|injection E as <- <-; intros [H|[]]; discriminate].
    destruct (t =? o_token o); injection E as <- <-; intros [H|[]]; discriminate.
Qed.

Lemma recv_msgs_nocf ms : forall c now orcs c' o, recv_msgs c now ms orcs = (c', o) -> nocf o.
Proof.
  induction ms as [|m r IH]; intros c now orcs c' o E; cbn [recv_msgs] in E.
  - injection E as <- <-. apply nocf_nil.
  - destruct (bf_insert (c_bf_msg c) (w_seq m)) as [bf|]; [|eapply IH; eassumption].
    match type of E with context [match ?x with (_, _) => _ end] => destruct x as [[c1 o1] orcs'] eqn:E1 end.
    assert (H1 : nocf o1).
    { destruct (w_type m).
      - injection E1 as <- <- <-. apply nocf_nil.
      - destruct (recv_handshake _ CLIENT_HELLO _) as [c'' o''] eqn:Eh. injection E1 as <- <- <-. eapply recv_handshake_nocf; eassumption.
      - destruct (recv_handshake _ SERVER_HELLO _) as [c'' o''] eqn:Eh. injection E1 as <- <- <-. eapply recv_handshake_nocf; eassumption.
      - destruct (recv_handshake _ CHALLENGE_RESP _) as [c'' o''] eqn:Eh. injection E1 as <- <- <-. eapply recv_handshake_nocf; eassumption.
      - injection E1 as <- <- <-. apply nocf_nil.
      - injection E1 as <- <- <-. apply nocf_nil.
      - injection E1 as <- <- <-. apply nocf_nil.
      - destruct (recv_fragment _ now (w_seq m) (w_payload m)) as [c'' o''] eqn:Ef. injection E1 as <- <- <-.
        unfold recv_fragment in Ef. destruct (_ <? _)%nat; injection Ef as <- <-; [intros [H|[]]; discriminate|apply nocf_nil]. }
    destruct (raised o1); [injection E as <- <-; exact H1|].
    destruct (recv_msgs c1 now r orcs') as [c2 o2] eqn:E2. injection E as <- <-.
    apply nocf_app; [exact H1|eapply IH; eassumption].
Qed.

Lemma recv_nocf c now d orcs c' o : recv c now d orcs = (c', o) ->
  nocf o /\ (c_hello_sent c' = c_hello_sent c \/ c_hello_sent c' = 0).
Proof.
  unfold recv. intros E.
  assert (Hr : nocf [ORet false]) by (intros [H|[]]; discriminate).
  destruct (keyless_refuses c (d_hdr d)); [injection E as <- <-; auto|].
  destruct (open_dgram (c_key c) d) as [ms|]; [|injection E as <- <-; auto].
  destruct (bf_insert (c_bf_pkt c) _) as [bf|]; [|injection E as <- <-; auto].
  match type of E with context [handle_ack_bits ?c0 _] => set (cc := c0) in E end.
  destruct (handle_ack_bits cc (d_hdr d)) as [c1 o1] eqn:E1.
  destruct (recv_msgs c1 now ms orcs) as [c2 o2] eqn:E2. injection E as <- <-.
  pose proof (ack_loop_cb_only _ _ _ _ _ E1) as C1. apply handle_ack_bits_frame in E1 as [[_ _ _ _ H1] _].
  pose proof (recv_msgs_nocf _ _ _ _ _ _ E2) as N2. apply recv_msgs_clock in E2 as (_ & H2 & _).
  split.
  - apply nocf_app; [apply cb_only_nocf; exact C1|]. apply nocf_app; [exact N2|].
    destruct (raised o2); [apply nocf_nil|intros [H|[]]; discriminate].
  - rewrite H1 in H2. exact H2.
Qed.

Lemma emit_nocf c pk : nocf (emit c pk).
Proof.
  destruct pk as [h ms]. unfold emit, nocf. destruct (encode_msgs _); [destruct (c_key c); [destruct (negb _)|]|];
    intros [H|[]]; discriminate.
Qed.

Definition is_hello_ev (x : ev) : bool := match x with EClientHello _ _ => true | _ => false end.

(* once the hello timer is clear (answered, timed out, or never started) no event other than a
   new connect makes the callback report failure *)
Lemma step_nocf e c x c' o :
  c_hello_sent c = 0 -> is_hello_ev x = false -> step e c x = (c', o) -> c_hello_sent c' = 0 /\ nocf o.
Proof.
  intros H0 Hx E. destruct x; try discriminate; cbn [step] in E.
  - pose proof E as E'. apply send_frame in E' as [[_ _ _ _ Hh] _]. split; [congruence|].
    unfold send in E. destruct (negb _); [injection E as <- <-; apply nocf_nil|].
    destruct (_ >? _); [destruct (_ >? _)|]; injection E as <- <-; try apply nocf_nil. intros [H|[]]; discriminate.
  - unfold client_tick in E.
    destruct (client_update c now) as [c0 o0] eqn:E0.
    destruct (client_update_spec _ _ _ _ E0) as (_ & Hh0 & Ho0 & _). rewrite H0 in Hh0, Ho0. cbn in Hh0, Ho0. subst o0.
    destruct (status_eqb (c_status c0) DROPPED); [injection E as <- <-; split; [exact Hh0|apply nocf_nil]|].
    match type of E with context [match ?y with (_, _) => _ end] => destruct y as [c1 o1] eqn:E1 end.
    assert (H1 : c_hello_sent c1 = 0 /\ nocf o1).
    { destruct r as [|er|d orcs].
      - injection E1 as <- <-. split; [exact Hh0|apply nocf_nil].
      - injection E1 as <- <-. split; [exact Hh0|intros [H|[]]; discriminate].
      - destruct (recv c0 now d orcs) as [c'' o''] eqn:Er. injection E1 as <- <-.
        apply recv_nocf in Er as [N Hh]. split; [destruct Hh; congruence|].
        intros Hin. apply N. apply filter_In in Hin as [Hin _]. exact Hin. }
    destruct H1 as [Hh1 N1]. cbn [app].
    destruct (raised o1); [injection E as <- <-; auto|].
    destruct (_ >? _); [|injection E as <- <-; auto].
    destruct (build_packet e c1 now) as [c2 pk] eqn:E2.
    destruct (check_timeout false c2 now) as [c3 o3] eqn:E3. injection E as <- <-.
    apply build_packet_cfg in E2 as (_ & _ & _ & Hh2 & _).
    pose proof (timeout_loop_cb_only _ _ _ _ _ _ E3) as C3. apply check_timeout_frame in E3 as [[_ _ _ _ Hh3] _].
    split; [congruence|].
    apply nocf_app; [exact N1|]. apply nocf_app; [destruct pk; [apply emit_nocf|apply nocf_nil]|apply cb_only_nocf; exact C3].
  - unfold server_tick in E. destruct (_ >? _); [|injection E as <- <-; split; [exact H0|apply nocf_nil]].
    destruct (build_packet e c now) as [c1 pk] eqn:E1.
    destruct (check_timeout true c1 now) as [c2 o2] eqn:E2. injection E as <- <-.
    apply build_packet_cfg in E1 as (_ & _ & _ & Hh1 & _).
    pose proof (timeout_loop_cb_only _ _ _ _ _ _ E2) as C2. apply check_timeout_frame in E2 as [[_ _ _ _ Hh2] _].
    split; [congruence|]. apply nocf_app; [apply cb_only_nocf; exact C2|destruct pk; [apply emit_nocf|apply nocf_nil]].
  - apply recv_nocf in E as [N Hh]. split; [destruct Hh; congruence|exact N].
  - injection E as <- <-. split; [|apply nocf_nil]. unfold disconnect. destruct (_ || _); cbn; exact H0.
  - injection E as <- <-. split; [|apply nocf_nil].
    destruct which as [|[[q|q|]|[q|q|]|]|q]; cbn; exact H0.
  - injection E as <- <-. split; [exact H0|apply nocf_nil].
  - injection E as <- <-. split; [exact H0|apply nocf_nil].
Qed.

Theorem connect_failure_once e xs : forall c c' oss,
  c_hello_sent c = 0 -> forallb (fun x => negb (is_hello_ev x)) xs = true -> run e c xs = (c', oss) ->
  c_hello_sent c' = 0 /\ Forall nocf oss.
Proof.
  induction xs as [|x r IH]; intros c c' oss H0 Hx E; cbn [run] in E.
  - injection E as <- <-. auto.
  - cbn [forallb] in Hx. apply andb_prop in Hx as [Hx Hr]. apply negb_true_iff in Hx.
    destruct (step e c x) as [c1 o] eqn:E1. destruct (run e c1 r) as [c2 os] eqn:E2. injection E as <- <-.
    destruct (step_nocf _ _ _ _ _ H0 Hx E1) as [H1 N1]. destruct (IH _ _ _ H1 Hr E2) as [H2 N2]. auto.
Qed.
