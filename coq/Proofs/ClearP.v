(* ClearP.v — C03, second half: what a key holder emits is sealed (except the server hello), and
   a connection that has no key holds no application data that could be emitted in clear. *)
From Coq Require Import Lia ZifyBool.
From RecordUpdate Require Import RecordUpdate.
From Model Require Import Base SeqNum Wire Conn.
From Proofs Require Import Tac SeqNumP WireP PackP ConnFrameP NonceP.
Import RecordSetNotations.
Open Scope Z_scope.

(* ---------- emissions of a key holder are sealed ---------- *)
Lemma emit_sealed c pk h kk p :
  In (OEmit h kk p) (emit c pk) ->
  kk = (if ptype_eqb (h_type h) SERVER_HELLO then None else c_key c)
  /\ encode_msgs (map wmsg_of (snd pk)) = Ok p /\ h_len h = len p /\ h_type h = h_type (fst pk).
Proof.
  destruct pk as [h0 ms]. unfold emit. cbn [fst snd].
  destruct (encode_msgs (map wmsg_of ms)) as [payload|er]; [|cbn; intros [H|[]]; discriminate].
  destruct (c_key c) as [k|] eqn:Ek.
  - cbn [h_type]. destruct (ptype_eqb (h_type h0) SERVER_HELLO) eqn:Et; cbn [negb In]; intros [H|[]]; injection H as <- <- <-;
      cbn [h_type h_len]; rewrite Et; auto.
  - cbn [In]; intros [H|[]]; injection H as <- <- <-. cbn [h_type h_len]. destruct (ptype_eqb _ _); auto.
Qed.

(* the key a step seals with is the key the connection holds after the step *)
Lemma step_emit_key e c x c' o h kk p :
  step e c x = (c', o) -> In (OEmit h kk p) o ->
  kk = (if ptype_eqb (h_type h) SERVER_HELLO then None else c_key c').
Proof.
  intros E Hin. destruct x; cbn [step] in E.
  - apply send_frame in E as [_ N]. apply N in Hin. discriminate.
  - (* client tick *)
    unfold client_tick in E.
    destruct (client_update c now) as [c0 o0] eqn:E0. apply client_update_frame in E0 as (_ & N0 & _).
    destruct (status_eqb (c_status c0) DROPPED); [injection E as <- <-; apply N0 in Hin; discriminate|].
    match type of E with context [match ?y with (_, _) => _ end] => destruct y as [c1 o1] eqn:E1 end.
    assert (N1 : no_emit o1).
    { destruct r as [|er|d orcs].
      - injection E1 as <- <-. apply no_emit_nil.
      - injection E1 as <- <-. intros y [<-|[]]; reflexivity.
      - destruct (recv c0 now d orcs) as [c'' o''] eqn:Er. injection E1 as <- <-.
        apply recv_frame in Er as [_ B]. auto with frame. }
    destruct (raised o1).
    { injection E as <- <-. apply in_app_or in Hin as [H|H]; [apply N0 in H|apply N1 in H]; discriminate. }
    destruct (now - c_last_send c1 >? c_send_interval c1).
    2:{ injection E as <- <-. apply in_app_or in Hin as [H|H]; [apply N0 in H|apply N1 in H]; discriminate. }
    destruct (build_packet e c1 now) as [c2 pk] eqn:E2.
    destruct (check_timeout false c2 now) as [c3 o3] eqn:E3. injection E as <- <-.
    apply check_timeout_frame in E3 as [[_ SK] N3].
    apply in_app_or in Hin as [H|Hin]; [apply N0 in H; discriminate|].
    apply in_app_or in Hin as [H|Hin]; [apply N1 in H; discriminate|].
    apply in_app_or in Hin as [Hin|H]; [|apply N3 in H; discriminate].
    destruct pk as [pk|]; [|destruct Hin]. apply emit_sealed in Hin as [-> _]. rewrite SK. reflexivity.
  - (* server tick *)
    unfold server_tick in E.
    destruct (now - c_last_send c >? c_send_interval c); [|injection E as <- <-; destruct Hin].
    destruct (build_packet e c now) as [c1 pk] eqn:E1.
    destruct (check_timeout true c1 now) as [c2 o2] eqn:E2. injection E as <- <-.
    apply check_timeout_frame in E2 as [[_ SK] N2].
    apply in_app_or in Hin as [H|Hin]; [apply N2 in H; discriminate|].
    destruct pk as [pk|]; [|destruct Hin]. apply emit_sealed in Hin as [-> _].
    (* emit used the connection after build_packet, whose key check_timeout keeps *)
    rewrite SK. reflexivity.
  - apply recv_frame in E as [_ N]. apply N in Hin. discriminate.
  - injection E as <- <-. destruct Hin.
  - injection E as <- <-. destruct Hin.
  - injection E as <- <-. destruct Hin.
  - injection E as <- <-. destruct Hin.
  - injection E as <- <-. destruct Hin.
Qed.

(* ---------- a connection without a key is quiet ---------- *)
Definition nonapp_t (t : ptype) : Prop := t <> APP /\ t <> APP_FRAGMENT.
Definition plain_cb (k : cb) : Prop := match k with Plain _ => True | Retry _ _ _ _ _ => False end.
Definition plain_ocb (k : option cb) : Prop := match k with Some k => plain_cb k | None => True end.
Definition quiet_msg (m : pmsg) : Prop := nonapp_t (m_type m) /\ m_retry m = RNone /\ plain_ocb (m_cb m).

Record Quiet (c : conn) : Prop := {
  q_status : c_status c <> CONNECTED;
  q_out : Forall quiet_msg (c_outgoing c);
  q_prm : c_pretry_msg c = [];
  q_pcbs : Forall (fun p => Forall plain_cb (snd p)) (c_pcbs c) }.

Definition Jinv (c : conn) : Prop := c_key c = None -> Quiet c.
Definition key_held (c : conn) : Prop := c_key c <> None.

(* fields the callback machinery may touch *)
Record same_q (c c' : conn) : Prop := {
  sq_status : c_status c' = c_status c;
  sq_key : c_key c' = c_key c;
  sq_out : c_outgoing c' = c_outgoing c;
  sq_prm : c_pretry_msg c' = c_pretry_msg c;
  sq_pcbs : c_pcbs c' = c_pcbs c }.
Lemma same_q_refl c : same_q c c. Proof. constructor; reflexivity. Qed.
Lemma same_q_trans a b c : same_q a b -> same_q b c -> same_q a c.
Proof. intros [] []. constructor; congruence. Qed.
Ltac q_triv := constructor; cbn; reflexivity.

Lemma same_q_Quiet c c' : same_q c c' -> Quiet c -> Quiet c'.
Proof. intros [A K B C D] [Q1 Q2 Q3 Q4]. constructor; congruence. Qed.

Lemma fire_icb_q c k ok c' o : fire_icb c k ok = (c', o) -> same_q c c'.
Proof.
  unfold fire_icb. intros E. destruct k; try (injection E as <- <-; apply same_q_refl).
  destruct (dget fid (c_pfrags c)); [|injection E as <- <-; apply same_q_refl].
  destruct (forallb is_some _); injection E as <- <-; q_triv.
Qed.

Lemma fire_all_q ks : forall c ok c' o, Forall plain_cb ks -> fire_all c ks ok = (c', o) -> same_q c c'.
Proof.
  induction ks as [|k ks IH]; intros c ok c' o HF E; cbn [fire_all] in E.
  - injection E as <- <-. apply same_q_refl.
  - inversion HF as [|? ? Hk HF']; subst.
    destruct (fire_cb c k ok) as [c1 o1] eqn:E1. destruct (fire_all c1 ks ok) as [c2 o2] eqn:E2.
    injection E as <- <-. destruct k as [i|]; [|destruct Hk]. cbn [fire_cb] in E1.
    eapply same_q_trans; [eapply fire_icb_q; eassumption|eapply IH; eassumption].
Qed.

Lemma dget_In {A} k (d : list (Z * A)) v : dget k d = Some v -> In (k, v) d.
Proof.
  induction d as [|[k' v'] r IH]; cbn [dget]; [discriminate|].
  destruct (k =? k') eqn:E; [intros H; injection H as ->; apply Z.eqb_eq in E; subst; left; reflexivity|].
  intros H. right. apply IH. exact H.
Qed.

Lemma Forall_ddel {A} (P : Z * A -> Prop) k d : Forall P d -> Forall P (ddel k d).
Proof. intros H. unfold ddel. apply Forall_forall. intros x Hx. apply filter_In in Hx as [Hx _].
  rewrite Forall_forall in H. auto. Qed.

Lemma Forall_dset {A} (P : Z * A -> Prop) k v d : Forall P d -> P (k, v) -> Forall P (dset k v d).
Proof.
  intros H Hv. induction d as [|[k' v'] r IH]; cbn [dset]; [repeat constructor; exact Hv|].
  inversion H; subst. destruct (k =? k'); constructor; auto.
Qed.

Lemma fold_ddel_nil {A} (l : list Z) : fold_left (fun (d : list (Z * A)) m => ddel m d) l [] = [].
Proof. induction l; cbn; auto. Qed.

Lemma resolve_Quiet ok c s c' o : Quiet c -> resolve ok c s = (c', o) -> Quiet c' /\ c_key c' = c_key c.
Proof.
  intros Q E. unfold resolve in E.
  set (c0 := if ok then _ else _) in E.
  assert (H0 : same_q c c0) by (subst c0; destruct ok; q_triv).
  pose proof (same_q_Quiet _ _ H0 Q) as Q0. destruct H0 as [_ K0 _ _ _].
  assert (Hfin : forall c1, same_q c0 c1 ->
            let c2 := c1 <| c_pcbs := ddel s (c_pcbs c1) |> in
            let c3 := match dget s (c_pretry c2) with
                      | Some mseqs => c2 <| c_pretry_msg := fold_left (fun d m => ddel m d) mseqs (c_pretry_msg c2) |>
                                         <| c_pretry := ddel s (c_pretry c2) |>
                      | None => c2 end in
            Quiet (c3 <| c_packs := ddel s (c_packs c3) |>) /\ c_key (c3 <| c_packs := ddel s (c_packs c3) |>) = c_key c).
  { intros c1 H1 c2 c3. pose proof (same_q_Quiet _ _ H1 Q0) as [Q1 Q2 Q3 Q4]. destruct H1 as [_ K1 _ _ _].
    subst c3 c2. cbn. destruct (dget s (c_pretry c1)); cbn; (split; [constructor; cbn; auto using Forall_ddel|congruence]).
    rewrite Q3. apply fold_ddel_nil. }
  destruct (dget s (c_pcbs c0)) as [ks|] eqn:Eg.
  - destruct (fire_all c0 ks ok) as [c1 o1] eqn:E1. injection E as <- <-.
    destruct Q0 as [_ _ _ Q4]. rewrite Forall_forall in Q4. pose proof (Q4 _ (dget_In _ _ _ Eg)) as Hks. cbn in Hks.
    apply (Hfin c1). eapply fire_all_q; eassumption.
  - injection E as <- <-.
    (* nothing registered for s: the same shape with c1 = c0 and pcbs untouched *)
    destruct Q0 as [Q1 Q2 Q3 Q4].
    destruct (dget s (c_pretry c0)); cbn; (split; [constructor; cbn; auto|congruence]).
    rewrite Q3. apply fold_ddel_nil.
Qed.

Lemma ack_loop_Quiet h snap : forall c c' o, Quiet c -> ack_loop c h snap = (c', o) -> Quiet c' /\ c_key c' = c_key c.
Proof.
  induction snap as [|[s t] r IH]; intros c c' o Q E; cbn [ack_loop] in E.
  - injection E as <- <-. auto.
  - dpair E c1 o1 E1. destruct (ack_loop c1 h r) as [c2 o2] eqn:E2. injection E as <- <-.
    assert (H1 : Quiet c1 /\ c_key c1 = c_key c).
    { destruct (hdr_acks _ _ s); [eapply resolve_Quiet; eassumption|].
      destruct (_ >? _); [eapply resolve_Quiet; eassumption|]. injection E1 as <- <-. auto. }
    destruct H1 as [Q1 K1]. destruct (IH _ _ _ Q1 E2) as [Q2 K2]. split; [exact Q2|congruence].
Qed.

Lemma timeout_loop_Quiet strict now snap : forall c c' o,
  Quiet c -> timeout_loop strict c now snap = (c', o) -> Quiet c' /\ c_key c' = c_key c.
Proof.
  induction snap as [|[s t] r IH]; intros c c' o Q E; cbn [timeout_loop] in E.
  - injection E as <- <-. auto.
  - dpair E c1 o1 E1. destruct (timeout_loop strict c1 now r) as [c2 o2] eqn:E2. injection E as <- <-.
    assert (H1 : Quiet c1 /\ c_key c1 = c_key c).
    { match type of E1 with (if ?b then _ else _) = _ => destruct b end; [eapply resolve_Quiet; eassumption|].
      injection E1 as <- <-. auto. }
    destruct H1 as [Q1 K1]. destruct (IH _ _ _ Q1 E2) as [Q2 K2]. split; [exact Q2|congruence].
Qed.

(* ---------- packet assembly from a quiet connection ---------- *)
Lemma out_pass_Forall (P : pmsg -> Prop) e q : forall msgs cur rem msgs' cur',
  Forall P q -> Forall P msgs -> out_pass e q msgs cur = (rem, msgs', cur') -> Forall P rem /\ Forall P msgs'.
Proof.
  induction q as [|m q IH]; intros msgs cur rem msgs' cur' Hq Hm E; cbn [out_pass] in E.
  - injection E as <- <- <-. auto.
  - inversion Hq as [|? ? Pm Hq']; subst. destruct (fits _ _ _ _).
    + eapply IH; [exact Hq'| |exact E]. apply Forall_app. auto.
    + destruct (out_pass e q msgs cur) as [[rem0 ms0] cu0] eqn:E0. injection E as <- <- <-.
      destruct (IH _ _ _ _ _ Hq' Hm E0). auto.
Qed.

Lemma quiet_stamp now m : quiet_msg m -> quiet_msg (stamp now m).
Proof. intros H. exact H. Qed.

Lemma filter_quiet_nil now ms : Forall quiet_msg ms ->
  filter (fun m => negb (retry_is_none (m_retry m))) (map (stamp now) ms) = [].
Proof.
  induction 1 as [|m ms (_ & Hr & _) _ IH]; [reflexivity|]. cbn [map filter stamp m_retry]. rewrite Hr. exact IH.
Qed.

Lemma opt_list_plain ms : Forall quiet_msg ms -> Forall plain_cb (opt_list (map m_cb ms)).
Proof.
  induction 1 as [|m ms (_ & _ & Hc) _ IH]; [constructor|]. cbn [map opt_list].
  destruct (m_cb m); [constructor; assumption|assumption].
Qed.

Lemma build_impl_Quiet e c now ka delay c' r :
  Quiet c -> build_impl e c now ka delay = (c', r) ->
  Quiet c' /\ c_key c' = c_key c /\
  match r with Some (h, ms) => Forall (fun m => nonapp_t (m_type m)) ms | None => True end.
Proof.
  intros [Q1 Q2 Q3 Q4] E. unfold build_impl in E. rewrite Q3 in E.
  destruct (out_pass e (c_outgoing c) [] 0) as [[rem msgs] cu] eqn:E1.
  destruct (out_pass_Forall quiet_msg _ _ _ _ _ _ _ Q2 (Forall_nil _) E1) as [Hrem Hmsgs].
  match type of E with (if ?b then _ else _) = _ => destruct b end.
  - injection E as <- <-. split; [constructor; cbn; auto|split; [reflexivity|exact I]].
  - injection E as <- <-. rewrite (filter_quiet_nil now msgs Hmsgs).
    pose proof (opt_list_plain msgs Hmsgs) as Hcbs.
    split; [|split].
    + destruct (opt_list (map m_cb msgs)) eqn:Eo; constructor; cbn; auto.
      apply Forall_dset; [exact Q4|]. cbn. exact Hcbs.
    + destruct (opt_list (map m_cb msgs)); reflexivity.
    + apply Forall_map. eapply Forall_impl; [|exact Hmsgs]. intros m (H & _). exact H.
Qed.

Lemma build_packet_Quiet e c now c' r :
  Quiet c -> build_packet e c now = (c', r) ->
  Quiet c' /\ c_key c' = c_key c /\
  match r with Some (h, ms) => Forall (fun m => nonapp_t (m_type m)) ms | None => True end.
Proof.
  intros Q E. unfold build_packet in E. destruct (_ <? _); [injection E as <- <-; auto|].
  destruct (build_impl e c now _ _) as [c1 r1] eqn:E1.
  destruct (build_impl_Quiet _ _ _ _ _ _ _ Q E1) as ([A1 A2 A3 A4] & K & F).
  destruct r1 as [pk|]; injection E as <- <-; (split; [|split; [exact K|exact F]]).
  - constructor; cbn; assumption.
  - constructor; assumption.
Qed.

(* ---------- the key, once held, is held for ever ---------- *)
Lemma recv_handshake_key c ty o c' os : recv_handshake c ty o = (c', os) -> key_held c -> key_held c'.
Proof.
  unfold recv_handshake, key_held. intros E HK.
  destruct ty, (c_server c); try (injection E as <- <-; exact HK).
  - destruct (negb _); [injection E as <- <-; exact HK|].
    destruct (negb _); injection E as <- <-; [exact HK|]. unfold send_type. cbn. discriminate.
  - destruct (o_parse o =? 6); [injection E as <- <-; exact HK|].
    destruct (negb _); injection E as <- <-; [exact HK|]. unfold send_type. cbn. discriminate.
  - destruct (negb _); [injection E as <- <-; exact HK|].
    destruct (o_temp_token o) as [t|]; [|injection E as <- <-; exact HK].
    destruct (t =? o_token o); injection E as <- <-; exact HK.
Qed.

Lemma recv_fragment_key c now mseq frag c' o : recv_fragment c now mseq frag = (c', o) -> c_key c' = c_key c.
Proof.
  unfold recv_fragment. intros E. destruct (_ <? _)%nat; [injection E as <- <-; reflexivity|].
  injection E as <- <-. destruct (fr_complete _); reflexivity.
Qed.

Lemma recv_msgs_key ms : forall c now orcs c' o, recv_msgs c now ms orcs = (c', o) -> key_held c -> key_held c'.
Proof.
  induction ms as [|m r IH]; intros c now orcs c' o E HK; cbn [recv_msgs] in E.
  - injection E as <- <-. exact HK.
  - destruct (bf_insert (c_bf_msg c) (w_seq m)) as [bf|]; [|eapply IH; eassumption].
    set (c0 := c <| c_bf_msg := bf |>) in E. assert (H0 : key_held c0) by exact HK.
    match type of E with context [match ?x with (_, _) => _ end] => destruct x as [[c1 o1] orcs'] eqn:E1 end.
    assert (H1 : key_held c1).
    { destruct (w_type m).
      - injection E1 as <- <- <-. exact H0.
      - destruct (recv_handshake c0 CLIENT_HELLO _) as [c'' o''] eqn:Eh. injection E1 as <- <- <-.
        eapply recv_handshake_key; eassumption.
      - destruct (recv_handshake c0 SERVER_HELLO _) as [c'' o''] eqn:Eh. injection E1 as <- <- <-.
        eapply recv_handshake_key; eassumption.
      - destruct (recv_handshake c0 CHALLENGE_RESP _) as [c'' o''] eqn:Eh. injection E1 as <- <- <-.
        eapply recv_handshake_key; eassumption.
      - injection E1 as <- <- <-. exact H0.
      - injection E1 as <- <- <-. exact H0.
      - injection E1 as <- <- <-. exact H0.
      - destruct (recv_fragment c0 now (w_seq m) (w_payload m)) as [c'' o''] eqn:Ef. injection E1 as <- <- <-.
        unfold key_held. rewrite (recv_fragment_key _ _ _ _ _ _ Ef). exact H0. }
    destruct (raised o1); [injection E as <- <-; exact H1|].
    destruct (recv_msgs c1 now r orcs') as [c2 o2] eqn:E2. injection E as <- <-. eapply IH; eassumption.
Qed.

Lemma recv_key c now d orcs c' o : recv c now d orcs = (c', o) -> key_held c -> key_held c'.
Proof.
  unfold recv. intros E HK.
  destruct (keyless_refuses c (d_hdr d)); [injection E as <- <-; exact HK|].
  destruct (open_dgram (c_key c) d) as [ms|]; [|injection E as <- <-; exact HK].
  destruct (bf_insert (c_bf_pkt c) _) as [bf|]; [|injection E as <- <-; exact HK].
  match type of E with context [handle_ack_bits ?c0 _] => set (cc := c0) in E end.
  destruct (handle_ack_bits cc (d_hdr d)) as [c1 o1] eqn:E1.
  destruct (recv_msgs c1 now ms orcs) as [c2 o2] eqn:E2. injection E as <- <-.
  apply handle_ack_bits_frame in E1 as [[_ K1] _]. eapply recv_msgs_key; [exact E2|].
  unfold key_held. rewrite K1. exact HK.
Qed.

(* ---------- a keyless connection only ever processes one hello ---------- *)
Lemma recv_keyless_Quiet c now d orcs c' o :
  c_key c = None -> Quiet c -> recv c now d orcs = (c', o) -> c_key c' = None -> Quiet c'.
Proof.
  intros HK Q E HK'. unfold recv in E.
  assert (Hd : forall c1, same_q c c1 -> Quiet c1) by (intros c1 H; eapply same_q_Quiet; eassumption).
  destruct (keyless_refuses c (d_hdr d)) eqn:Ekl; [injection E as <- <-; apply Hd; q_triv|].
  unfold keyless_refuses in Ekl. rewrite HK in Ekl. cbn [is_some negb andb] in Ekl.
  apply orb_false_elim in Ekl as [Ecount Ehello].
  apply negb_false_iff in Ecount. apply negb_false_iff in Ehello.
  destruct (open_dgram (c_key c) d) as [ms|] eqn:Eo; [|injection E as <- <-; apply Hd; q_triv].
  (* exactly one message, of the header's (hello) type *)
  assert (Hms : ms = [] \/ exists m, ms = [m] /\ w_type m = h_type (d_hdr d)).
  { unfold open_dgram in Eo. rewrite HK in Eo. destruct (d_body d); try discriminate.
    destruct (h_len (d_hdr d) =? len p); [|discriminate]. cbn [bind] in Eo.
    unfold decode_msgs in Eo. rewrite Ecount in Eo. destruct (_ <? _)%nat; [discriminate|].
    injection Eo as <-. right. eexists. split; reflexivity. }
  destruct (bf_insert (c_bf_pkt c) _) as [bf|]; [|injection E as <- <-; apply Hd; q_triv].
  match type of E with context [handle_ack_bits ?c0 _] => set (cc := c0) in E end.
  assert (Qcc : Quiet cc) by (apply Hd; subst cc; q_triv).
  assert (Kcc : c_key cc = None) by exact HK.
  destruct (handle_ack_bits cc (d_hdr d)) as [c1 o1] eqn:E1.
  destruct (ack_loop_Quiet _ _ _ _ _ Qcc E1) as [Q1 K1]. rewrite Kcc in K1.
  destruct (recv_msgs c1 now ms orcs) as [c2 o2] eqn:E2. injection E as <- <-.
  destruct Hms as [->|(m & -> & Hty)].
  { cbn [recv_msgs] in E2. injection E2 as <- <-. exact Q1. }
  cbn [recv_msgs] in E2.
  destruct (bf_insert (c_bf_msg c1) (w_seq m)) as [bfm|]; [|injection E2 as <- <-; exact Q1].
  set (c1' := c1 <| c_bf_msg := bfm |>) in E2.
  assert (Q1' : Quiet c1') by (eapply same_q_Quiet; [|exact Q1]; subst c1'; q_triv).
  assert (K1' : c_key c1' = None) by exact K1.
  unfold is_hello in Ehello. rewrite <- Hty in Ehello.
  assert (Hh : forall c'' os, recv_handshake c1' (w_type m) (hd no_oracle orcs) = (c'', os) ->
                              c_key c'' = None -> Quiet c'').
  { intros c'' os Eh Hn. unfold recv_handshake in Eh.
    destruct (w_type m), (c_server c1'); try (injection Eh as <- <-; exact Q1').
    - destruct (negb _); [injection Eh as <- <-; exact Q1'|].
      destruct (negb _); injection Eh as <- <-; [exact Q1'|]. unfold send_type in Hn. cbn in Hn. discriminate.
    - destruct (o_parse _ =? 6).
      + injection Eh as <- <-. destruct Q1' as [A B C D]. constructor; cbn; auto. discriminate.
      + destruct (negb _); injection Eh as <- <-; [exact Q1'|]. unfold send_type in Hn. cbn in Hn. discriminate.
    - discriminate. }
  destruct (w_type m) eqn:Ew; try discriminate.
  - destruct (recv_handshake c1' CLIENT_HELLO (hd no_oracle orcs)) as [c'' os] eqn:Eh.
    destruct (raised os).
    + injection E2 as <- <-. eapply Hh; [reflexivity|exact HK'].
    + cbn [recv_msgs] in E2. injection E2 as <- <-. eapply Hh; [reflexivity|exact HK'].
  - destruct (recv_handshake c1' SERVER_HELLO (hd no_oracle orcs)) as [c'' os] eqn:Eh.
    destruct (raised os).
    + injection E2 as <- <-. eapply Hh; [reflexivity|exact HK'].
    + cbn [recv_msgs] in E2. injection E2 as <- <-. eapply Hh; [reflexivity|exact HK'].
Qed.

(* ---------- every event keeps the invariant; what leaves in clear ---------- *)
Definition clear_ok (o : list out) : Prop :=
  forall h p, In (OEmit h None p) o ->
    h_type h = SERVER_HELLO \/
    exists ms, encode_msgs (map wmsg_of ms) = Ok p /\ Forall (fun m => nonapp_t (m_type m)) ms.

Lemma clear_ok_no_emit o : no_emit o -> clear_ok o.
Proof. intros N h p Hin. apply N in Hin. discriminate. Qed.

Lemma clear_ok_app a b : clear_ok a -> clear_ok b -> clear_ok (a ++ b).
Proof. intros A B h p Hin. apply in_app_or in Hin as [H|H]; [apply A|apply B]; exact H. Qed.

Lemma emit_clear_ok c pk :
  (c_key c = None -> Forall (fun m => nonapp_t (m_type m)) (snd pk)) -> clear_ok (emit c pk).
Proof.
  intros HF h p Hin. apply emit_sealed in Hin as (Hk & Hp & _ & _).
  destruct (ptype_eqb (h_type h) SERVER_HELLO) eqn:Et.
  - left. destruct (h_type h); try discriminate. reflexivity.
  - right. exists (snd pk). split; [exact Hp|]. apply HF. symmetry. exact Hk.
Qed.

Lemma Jinv_of_key c c' : c_key c' = c_key c -> (c_key c = None -> Quiet c') -> Jinv c'.
Proof. intros K H HK. apply H. congruence. Qed.

Lemma client_update_J c now c' o : Jinv c -> client_update c now = (c', o) -> Jinv c'.
Proof.
  intros J E. pose proof E as E'. apply client_update_frame in E' as (_ & _ & K).
  apply (Jinv_of_key c); [exact K|]. intros HK. destruct (J HK) as [A B C D].
  unfold client_update in E.
  destruct (_ && (now >? _)); destruct (_ && (_ >? c_temp_timeout _)); injection E as <- <-;
    constructor; cbn; auto; discriminate.
Qed.

Lemma recv_J c now d orcs c' o : Jinv c -> recv c now d orcs = (c', o) -> Jinv c'.
Proof.
  intros J E HK'. destruct (c_key c) eqn:HK.
  - exfalso. apply (recv_key _ _ _ _ _ _ E); [unfold key_held; congruence|exact HK'].
  - eapply recv_keyless_Quiet; [exact HK|exact (J HK)|exact E|exact HK'].
Qed.

Lemma emit_key_only a b pk : c_key a = c_key b -> emit a pk = emit b pk.
Proof. intros K. destruct pk as [h ms]. unfold emit. rewrite K. reflexivity. Qed.

Lemma tick_tail_J strict e c now c1 pk c2 o2 :
  Jinv c -> build_packet e c now = (c1, pk) -> check_timeout strict c1 now = (c2, o2) ->
  Jinv c2 /\ clear_ok (match pk with Some p => emit c1 p | None => [] end).
Proof.
  intros J E1 E2. destruct (c_key c) eqn:HK.
  - pose proof (build_packet_built _ _ _ _ _ E1) as (_ & _ & K1 & _).
    pose proof E2 as E2'. apply check_timeout_frame in E2' as [[_ K2] _].
    split; [intros H; congruence|].
    destruct pk as [p|]; [|intros h q []]. apply emit_clear_ok. intros H. congruence.
  - destruct (build_packet_Quiet _ _ _ _ _ (J HK) E1) as (Q1 & K1 & F).
    destruct (timeout_loop_Quiet _ _ _ _ _ _ Q1 E2) as [Q2 K2].
    split; [intros _; exact Q2|].
    destruct pk as [[h ms]|]; [|intros h q []]. apply emit_clear_ok. intros _. exact F.
Qed.

Theorem step_J e c x c' o : Jinv c -> step e c x = (c', o) -> Jinv c' /\ clear_ok o.
Proof.
  intros J E. destruct x; cbn [step] in E.
  - (* send: a keyless connection is not CONNECTED, nothing is queued *)
    pose proof E as E'. apply send_frame in E' as [[_ K _ _ _ _ _ _ _] N].
    split; [|apply clear_ok_no_emit; exact N].
    apply (Jinv_of_key c); [exact K|]. intros HK. pose proof (J HK) as Q.
    unfold send in E. destruct Q as [A B C D].
    destruct (status_eqb (c_status c) CONNECTED) eqn:Es.
    + exfalso. apply A. destruct (c_status c); try discriminate. reflexivity.
    + cbn [negb] in E. injection E as <- <-. constructor; assumption.
  - (* client tick *)
    unfold client_tick in E.
    destruct (client_update c now) as [c0 o0] eqn:E0.
    pose proof (client_update_J _ _ _ _ J E0) as J0. apply client_update_frame in E0 as (_ & N0 & _).
    destruct (status_eqb (c_status c0) DROPPED); [injection E as <- <-; split; [exact J0|apply clear_ok_no_emit; exact N0]|].
    match type of E with context [match ?y with (_, _) => _ end] => destruct y as [c1 o1] eqn:E1 end.
    assert (H1 : Jinv c1 /\ no_emit o1).
    { destruct r as [|er|d orcs].
      - injection E1 as <- <-. split; [exact J0|apply no_emit_nil].
      - injection E1 as <- <-. split; [exact J0|intros y [<-|[]]; reflexivity].
      - destruct (recv c0 now d orcs) as [c'' o''] eqn:Er. injection E1 as <- <-.
        split; [eapply recv_J; eassumption|]. apply recv_frame in Er as [_ B]. auto with frame. }
    destruct H1 as [J1 N1].
    destruct (raised o1); [injection E as <- <-; split; [exact J1|apply clear_ok_no_emit; auto with frame]|].
    destruct (now - c_last_send c1 >? c_send_interval c1);
      [|injection E as <- <-; split; [exact J1|apply clear_ok_no_emit; auto with frame]].
    destruct (build_packet e c1 now) as [c2 pk] eqn:E2.
    destruct (check_timeout false c2 now) as [c3 o3] eqn:E3. injection E as <- <-.
    destruct (tick_tail_J _ _ _ _ _ _ _ _ J1 E2 E3) as [J3 Hc]. apply check_timeout_frame in E3 as [_ N3].
    split; [exact J3|].
    apply clear_ok_app; [apply clear_ok_no_emit; exact N0|].
    apply clear_ok_app; [apply clear_ok_no_emit; exact N1|].
    apply clear_ok_app; [exact Hc|apply clear_ok_no_emit; exact N3].
  - (* server tick *)
    unfold server_tick in E.
    destruct (now - c_last_send c >? c_send_interval c); [|injection E as <- <-; split; [exact J|intros h q []]].
    destruct (build_packet e c now) as [c1 pk] eqn:E1.
    destruct (check_timeout true c1 now) as [c2 o2] eqn:E2. injection E as <- <-.
    destruct (tick_tail_J _ _ _ _ _ _ _ _ J E1 E2) as [J2 Hc]. apply check_timeout_frame in E2 as [[_ K2] N2].
    split; [exact J2|]. apply clear_ok_app; [apply clear_ok_no_emit; exact N2|].
    destruct pk as [p|]; [|exact Hc]. rewrite (emit_key_only c2 c1 p K2). exact Hc.
  - pose proof (recv_J _ _ _ _ _ _ J E) as J'. apply recv_frame in E as [_ N].
    split; [exact J'|apply clear_ok_no_emit; exact N].
  - (* disconnect *)
    injection E as <- <-. split; [|intros h q []].
    intros HK'. unfold disconnect in *.
    destruct (status_eqb (c_status c) CONNECTED || status_eqb (c_status c) DISCONNECTING) eqn:Es.
    + unfold send_type in *. cbn in HK'. destruct (J HK') as [A B C D].
      constructor; cbn; auto; try discriminate.
      repeat constructor; try discriminate. cbn. destruct k; exact I.
    + cbn in HK'. destruct (J HK') as [A B C D]. constructor; cbn; auto. discriminate.
  - (* configuration *)
    injection E as <- <-. split; [|intros h q []].
    assert (G : forall c'', same_q c c'' -> Jinv c'').
    { intros c'' [A K B C D] HK. destruct (J (eq_trans (eq_sym K) HK)) as [Q1 Q2 Q3 Q4]. constructor; congruence. }
    apply G. destruct which as [|[[q|q|]|[q|q|]|]|q]; q_triv.
  - (* client hello *)
    injection E as <- <-. split; [|intros h q []].
    intros HK'. unfold client_hello, send_type in *. cbn in HK'. destruct (J HK') as [A B C D].
    constructor; cbn; auto; try discriminate.
    apply Forall_app. split; [exact B|]. repeat constructor; discriminate.
  - injection E as <- <-. split; [|intros h q []].
    intros HK'. cbn in HK'. destruct (J HK') as [A B C D]. constructor; cbn; auto.
  - injection E as <- <-. split; [|intros h q []].
    intros HK'. cbn in HK'. destruct (J HK') as [A B C D]. constructor; cbn; auto.
Qed.

Lemma Jinv_conn0 b : Jinv (conn0 b).
Proof. intros _. constructor; cbn; auto. discriminate. Qed.

Theorem run_J e xs : forall c c' oss, Jinv c -> run e c xs = (c', oss) -> Jinv c' /\ Forall clear_ok oss.
Proof.
  induction xs as [|x r IH]; intros c c' oss J E; cbn [run] in E.
  - injection E as <- <-. auto.
  - destruct (step e c x) as [c1 o] eqn:E1. destruct (run e c1 r) as [c2 os] eqn:E2. injection E as <- <-.
    destruct (step_J _ _ _ _ _ J E1) as [J1 C1]. destruct (IH _ _ _ J1 E2) as [J2 C2]. auto.
Qed.

(* ---------- the byte level: what the symbolic emission stands for ---------- *)
(* the 12 nonce bytes determine (direction, ctime, seq, ack) *)
Definition nonce_fields (n : list byte) : bool * Z * Z * Z :=
  (bytes_eqb (sub n 0 4) MAGIC_TO_SERVER, unbe (sub n 4 4), unbe (sub n 8 2), unbe (sub n 10 2)).

Lemma nonce_fields_encode h hb : encode_header h = Ok hb ->
  nonce_fields (firstn 12 hb) = (h_to_server h, h_ctime h, h_seq h, h_ack h).
Proof.
  unfold encode_header. destruct (header_ok h) eqn:Hok; [|discriminate]. intros E. injection E as <-.
  unfold header_ok in Hok. repeat (apply andb_prop in Hok as [Hok ?]).
  repeat match goal with H : in_range _ _ = true |- _ => apply in_range_spec in H; [|lia] end.
  destruct h as [ts ct sq ak ty ln cn ab]. cbn [h_to_server h_ctime h_seq h_ack h_type h_len h_count h_ackbits] in *.
  unfold nonce_fields.
  destruct ts; cbn [MAGIC_TO_SERVER MAGIC_TO_CLIENT map be app firstn skipn sub length];
    unfold unbe; cbn [fold_left]; rewrite !Z_of_byte_of_Z;
    (match goal with |- context [bytes_eqb ?a ?b] => let v := eval vm_compute in (bytes_eqb a b) in change (bytes_eqb a b) with v end);
    repeat f_equal; lia.
Qed.

Theorem nonce_bytes_inj h1 h2 b1 b2 :
  encode_header h1 = Ok b1 -> encode_header h2 = Ok b2 -> firstn 12 b1 = firstn 12 b2 ->
  h_to_server h1 = h_to_server h2 /\ h_ctime h1 = h_ctime h2 /\ h_seq h1 = h_seq h2 /\ h_ack h1 = h_ack h2.
Proof.
  intros E1 E2 Hn. apply nonce_fields_encode in E1. apply nonce_fields_encode in E2.
  rewrite Hn in E1. rewrite E1 in E2. injection E2 as -> -> -> ->. auto.
Qed.

(* Packet.to_bytes on what packet assembly produced = the bytes the symbolic emission denotes:
   header bytes, then seal key (first 12 header bytes) (all 20 header bytes) payload *)
Section Bytes.
  Variable crc : list byte -> Z.
  Variable seal : Z -> list byte -> list byte -> list byte -> list byte.

  Definition denote (h : header) (kk : option Z) (p : list byte) : res (list byte) :=
    do hb <- encode_header h;
    match kk with
    | Some k => Ok (hb ++ seal k (firstn 12 hb) hb p)
    | None => Ok (hb ++ p ++ be 4 (crc (hb ++ p)))
    end.

  Theorem emit_denotes c h0 ms h kk p :
    h_count h0 = len ms ->
    In (OEmit h kk p) (emit c (h0, ms)) ->
    to_bytes crc seal (c_key c) h0 (map wmsg_of ms) = denote h kk p.
  Proof.
    intros Hcount. unfold emit, to_bytes, denote.
    destruct (encode_msgs (map wmsg_of ms)) as [payload|er]; [|cbn; intros [H|[]]; discriminate].
    cbn [bind].
    assert (Hl : len (map wmsg_of ms) = h_count h0) by (unfold len; rewrite map_length; symmetry; exact Hcount).
    rewrite Hl.
    destruct (c_key c) as [k|].
    - cbn [h_type]. destruct (ptype_eqb (h_type h0) SERVER_HELLO) eqn:Et; cbn [negb In];
        intros [H|[]]; injection H as <- <- <-; destruct (encode_header _); reflexivity.
    - cbn [In]. intros [H|[]]; injection H as <- <- <-. destruct (encode_header _); reflexivity.
  Qed.
End Bytes.
