(* OnceLiveP.v — a user callback attached to a pending datagram is not lost while the connection
   stays open: it stays attached to that pending datagram or it is reported; hence (with the
   resolution deadline of AckP) it has been reported at the latest at the first rate-gated tick
   more than the message time-out after the datagram was assembled.  (C07, the at-least-once half
   for the stage "assembled -> reported" of unretried sends.) *)
From Coq Require Import Lia ZifyBool List.
From RecordUpdate Require Import RecordUpdate.
From Model Require Import Base SeqNum Wire Conn.
From Proofs Require Import Tac ConnFrameP AckP ClearP CallbackP PackP CustodyP OnceP.
Import RecordSetNotations ListNotations.
Open Scope Z_scope.

(* callback id is attached to the pending datagram s, which was assembled at time t *)
Definition Pending (c : conn) (id s t : Z) : Prop :=
  exists ks, dget s (c_pcbs c) = Some ks /\ In (Plain (IUser id)) ks /\ In (s, t) (c_packs c).
Definition Keep (c c' : conn) (o : list out) : Prop :=
  forall id s t, Pending c id s t -> In id (fired o) \/ Pending c' id s t.

Lemma Keep_refl c : Keep c c []. Proof. intros id s t H. right. exact H. Qed.
Lemma Keep_trans a b c o1 o2 : Keep a b o1 -> Keep b c o2 -> Keep a c (o1 ++ o2).
Proof.
  intros H1 H2 id s t H. rewrite fired_app. destruct (H1 id s t H) as [F|P]; [left; apply in_or_app; left; exact F|].
  destruct (H2 id s t P) as [F|P']; [left; apply in_or_app; right; exact F|right; exact P'].
Qed.
Lemma Keep_same c c' o : c_pcbs c' = c_pcbs c -> c_packs c' = c_packs c -> Keep c c' o.
Proof. intros H1 H2 id s t (ks & A & B & C). right. exists ks. rewrite H1, H2. auto. Qed.
Lemma Keep_out a b o o' : fired o' = fired o -> Keep a b o -> Keep a b o'.
Proof. intros Hf H id s t P. rewrite Hf. exact (H id s t P). Qed.

Lemma fire_all_reports id ks : forall c ok c' o, In (Plain (IUser id)) ks -> fire_all c ks ok = (c', o) -> In id (fired o).
Proof.
  induction ks as [|k ks IH]; intros c ok c' o Hin E; [destruct Hin|]. cbn [fire_all] in E.
  destruct (fire_cb c k ok) as [c1 o1] eqn:E1. destruct (fire_all c1 ks ok) as [c2 o2] eqn:E2. injection E as <- <-.
  rewrite fired_app. apply in_or_app. destruct Hin as [->|Hin].
  - left. cbn in E1. injection E1 as <- <-. left. reflexivity.
  - right. eapply IH; eassumption.
Qed.

Lemma resolve_pcbs ok c s0 c' o : resolve ok c s0 = (c', o) ->
  (forall s, s <> s0 -> dget s (c_pcbs c') = dget s (c_pcbs c)) /\
  (forall id ks, dget s0 (c_pcbs c) = Some ks -> In (Plain (IUser id)) ks -> In id (fired o)).
Proof.
  unfold resolve. intros E. set (c0 := if ok then _ else _) in E.
  assert (Hp0 : c_pcbs c0 = c_pcbs c) by (subst c0; destruct ok; reflexivity).
  destruct (dget s0 (c_pcbs c0)) as [ks|] eqn:Eg.
  - destruct (fire_all c0 ks ok) as [c1 o1] eqn:E1.
    pose proof (proj2 (fire_all_St _ _ _ _ _ [] E1)) as Hp1.
    injection E as <- <-. split.
    + intros s Hs. assert (Hc : forall cc : conn, c_pcbs (cc <| c_packs := ddel s0 (c_packs cc) |>) = c_pcbs cc) by reflexivity.
      rewrite Hc. destruct (dget s0 (c_pretry c1)); cbn [c_pcbs set]; rewrite Hp1, Hp0, dget_ddel;
        assert (s =? s0 = false) as -> by lia; reflexivity.
    + intros id ks' Hk Hin. rewrite <- Hp0, Eg in Hk. injection Hk as <-. eapply fire_all_reports; eassumption.
  - injection E as <- <-. split.
    + intros s Hs. destruct (dget s0 (c_pretry c0)); cbn [c_pcbs set]; rewrite Hp0; reflexivity.
    + intros id ks' Hk. rewrite <- Hp0, Eg in Hk. discriminate.
Qed.

Lemma resolve_Keep ok c s0 c' o : resolve ok c s0 = (c', o) -> Keep c c' o.
Proof.
  intros E. destruct (resolve_pcbs _ _ _ _ _ E) as [H1 H2]. destruct (resolve_packs _ _ _ _ _ E) as (Hp & _).
  intros id s t (ks & A & B & C). destruct (Z.eq_dec s s0) as [->|Hne].
  - left. exact (H2 id ks A B).
  - right. exists ks. rewrite (H1 s Hne), Hp. split; [exact A|]. split; [exact B|]. apply In_ddel; [exact C|exact Hne].
Qed.

Lemma ack_loop_Keep h snap : forall c c' o, ack_loop c h snap = (c', o) -> Keep c c' o.
Proof.
  induction snap as [|[s t] r IH]; intros c c' o E; cbn [ack_loop] in E.
  - injection E as <- <-. apply Keep_refl.
  - dpair E c1 o1 E1. destruct (ack_loop c1 h r) as [c2 o2] eqn:E2. injection E as <- <-.
    apply Keep_trans with (b := c1); [|apply IH; exact E2].
    destruct (hdr_acks _ _ s); [eapply resolve_Keep; eassumption|].
    destruct (_ >? _); [eapply resolve_Keep; eassumption|]. injection E1 as <- <-. apply Keep_refl.
Qed.

Lemma timeout_loop_Keep strict now snap : forall c c' o, timeout_loop strict c now snap = (c', o) -> Keep c c' o.
Proof.
  induction snap as [|[s t] r IH]; intros c c' o E; cbn [timeout_loop] in E.
  - injection E as <- <-. apply Keep_refl.
  - dpair E c1 o1 E1. destruct (timeout_loop strict c1 now r) as [c2 o2] eqn:E2. injection E as <- <-.
    apply Keep_trans with (b := c1); [|apply IH; exact E2].
    match type of E1 with (if ?b then _ else _) = _ => destruct b end;
      [eapply resolve_Keep; eassumption|injection E1 as <- <-; apply Keep_refl].
Qed.

Lemma In_dset {A} k (v : A) d x : In x d -> fst x <> k -> In x (dset k v d).
Proof.
  induction d as [|[k' v'] d IH]; intros H Hne; [destruct H|]. cbn [dset]. destruct (k =? k') eqn:E.
  - destruct H as [<-|H]; [cbn in Hne; lia|right; exact H].
  - destruct H as [<-|H]; [left; reflexivity|right; apply IH; assumption].
Qed.

Lemma build_impl_pcbs e c now ka delay c' r : build_impl e c now ka delay = (c', r) ->
  c_pcbs c' = c_pcbs c \/ exists cbs, c_pcbs c' = dset (seq_succ (c_seq_send c)) cbs (c_pcbs c).
Proof.
  unfold build_impl. intros E.
  destruct (match c_pretry_msg c with [] => _ | _ => _ end) as [[prm msgs0] cur0].
  destruct (out_pass e (c_outgoing c) msgs0 cur0) as [[rem msgs] cu].
  match type of E with (if ?b then _ else _) = _ => destruct b end; injection E as <- <-; [left; reflexivity|].
  destruct (opt_list (map m_cb msgs)) as [|k0 ks] eqn:Ec;
    repeat match goal with |- context [match ?x with [] => _ | _ :: _ => _ end] => destruct x end;
    cbn; (left; reflexivity) || (right; eexists; reflexivity).
Qed.

Lemma build_packet_Keep e c now c' r :
  ~ In (seq_succ (c_seq_send c)) (map fst (c_packs c)) -> build_packet e c now = (c', r) -> Keep c c' [].
Proof.
  intros Hf E. unfold build_packet in E. destruct (_ <? _); [injection E as <- <-; apply Keep_refl|].
  destruct (build_impl e c now _ _) as [c1 r1] eqn:E1.
  pose proof (build_impl_pcbs _ _ _ _ _ _ _ E1) as Hc. apply build_impl_packs in E1 as (_ & _ & _ & _ & Hp).
  assert (K1 : Keep c c1 []).
  { intros id s t (ks & A & B & C). right. exists ks.
    assert (Hne : s <> seq_succ (c_seq_send c)) by (intros ->; apply Hf; apply in_map_iff; exists (seq_succ (c_seq_send c), t); auto).
    split; [|split; [exact B|]].
    - destruct Hc as [->|(cbs & ->)]; [exact A|]. rewrite dget_dset. assert (s =? seq_succ (c_seq_send c) = false) as -> by lia. exact A.
    - rewrite Hp. destruct r1; [|exact C]. apply In_dset; [exact C|exact Hne]. }
  destruct r1; injection E as <- <-; [|exact K1].
  change (@nil out) with (@nil out ++ []). eapply Keep_trans; [exact K1|apply Keep_same; reflexivity].
Qed.

Lemma recv_msgs_pcbs ms c now orcs c' o : recv_msgs c now ms orcs = (c', o) -> c_pcbs c' = c_pcbs c.
Proof.
  intros E. apply (recv_msgs_rel (keeps c_pcbs)) with (ms := ms) (now := now) (orcs := orcs) (o := o); try exact E.
  - intros a. apply keeps_refl.
  - intros a b d. apply keeps_trans.
  - intros a bf. reflexivity.
  - intros a s p. reflexivity.
  - intros a n s p a' o' Ef. unfold recv_fragment in Ef. destruct (_ <? _)%nat; [injection Ef as <- <-; reflexivity|].
    injection Ef as <- <-. destruct (fr_complete _); reflexivity.
  - intros a. reflexivity.
  - apply recv_handshake_keeps; reflexivity.
Qed.

Lemma recv_Keep c now d orcs c' o : recv c now d orcs = (c', o) -> Keep c c' o.
Proof.
  unfold recv. intros E.
  destruct (keyless_refuses c (d_hdr d)); [injection E as <- <-; apply Keep_same; reflexivity|].
  destruct (open_dgram (c_key c) d) as [ms|]; [|injection E as <- <-; apply Keep_same; reflexivity].
  destruct (bf_insert (c_bf_pkt c) _) as [bf|]; [|injection E as <- <-; apply Keep_same; reflexivity].
  match type of E with context [handle_ack_bits ?c0 _] => set (cc := c0) in E end.
  destruct (handle_ack_bits cc (d_hdr d)) as [c1 o1] eqn:E1.
  destruct (recv_msgs c1 now ms orcs) as [c2 o2] eqn:E2. injection E as <- <-.
  apply Keep_out with (o := [] ++ o1 ++ []).
  { cbn [app]. rewrite !fired_app. rewrite (fired_none o2) by (intros id b; exact (recv_msgs_no_cb _ _ _ _ _ _ id b E2)).
    destruct (raised o2); reflexivity. }
  apply Keep_trans with (b := cc); [apply Keep_same; reflexivity|].
  apply Keep_trans with (b := c1); [exact (ack_loop_Keep _ _ _ _ _ E1)|].
  apply Keep_same; [exact (recv_msgs_pcbs _ _ _ _ _ _ E2)|exact (sa_packs _ _ (recv_msgs_ack _ _ _ _ _ _ E2))].
Qed.

Lemma send_frags_pcbs frags : forall c fid n r i, c_pcbs (send_frags c fid n r i frags) = c_pcbs c.
Proof. induction frags as [|f rest IH]; intros c fid n r i; cbn [send_frags]; [reflexivity|]. rewrite IH. reflexivity. Qed.

Lemma send_Keep e c p r k c' o : send e c p r k = (c', o) -> Keep c c' o.
Proof.
  intros E. apply Keep_same; [|exact (sa_packs _ _ (send_ack _ _ _ _ _ _ _ E))].
  unfold send in E. destruct (negb _); [injection E as <- <-; reflexivity|].
  destruct (len p >? e_max_payload e); [|injection E as <- <-; reflexivity].
  cbv zeta in E. destruct (len p >? e_max_frag e * e_max_frags e); injection E as <- <-; [reflexivity|].
  cbn [c_pcbs set]. rewrite send_frags_pcbs. reflexivity.
Qed.

Lemma client_update_AInv S K c now c' o n : client_update c now = (c', o) -> AInv S K c n -> AInv S K c' n.
Proof.
  intros E [H0 Hp]. pose proof (client_update_ack _ _ _ _ E) as Ha.
  assert (Hc : same_core c c').
  { unfold client_update in E. destruct (_ && (now >? _)); destruct (_ && (_ >? c_temp_timeout _)); injection E as <- <-; constructor; reflexivity. }
  split; [eapply AInv0_same; eassumption|eapply purged_same; eassumption].
Qed.

Lemma client_tick_Keep e S K c n now r c' o : AInv S K c n -> client_tick e c now r = (c', o) -> Keep c c' o.
Proof.
  unfold client_tick. intros HI E.
  destruct (client_update c now) as [c0 o0] eqn:E0.
  pose proof (client_update_AInv _ _ _ _ _ _ _ E0 HI) as HI0.
  assert (K0 : Keep c c0 o0).
  { apply Keep_same; [|exact (sa_packs _ _ (client_update_ack _ _ _ _ E0))].
    unfold client_update in E0. destruct (_ && (now >? _)); destruct (_ && (_ >? c_temp_timeout _)); injection E0 as <- <-; reflexivity. }
  destruct (status_eqb (c_status c0) DROPPED); [injection E as <- <-; exact K0|].
  match type of E with (let '(c, o) := ?x in _) = _ => destruct x as [c1 o1] eqn:E1 end.
  assert (H1 : Keep c0 c1 o1 /\ AInv S K c1 n).
  { destruct r as [|er|d orcs].
    - injection E1 as <- <-. split; [apply Keep_refl|exact HI0].
    - injection E1 as <- <-. split; [apply Keep_same; reflexivity|exact HI0].
    - destruct (recv c0 now d orcs) as [c'' o''] eqn:Er. injection E1 as <- <-. split.
      + eapply Keep_out; [apply fired_filter_ret|]. exact (recv_Keep _ _ _ _ _ _ Er).
      + exact (recv_AInv _ _ _ _ _ _ _ _ _ Er HI0). }
  destruct H1 as [K1 HI1].
  destruct (raised o1); [injection E as <- <-; exact (Keep_trans _ _ _ _ _ K0 K1)|].
  destruct (_ >? _); [|injection E as <- <-; exact (Keep_trans _ _ _ _ _ K0 K1)].
  destruct (build_packet e c1 now) as [c2 pk] eqn:E2.
  destruct (check_timeout false c2 now) as [c3 o3] eqn:E3. injection E as <- <-.
  apply Keep_trans with (b := c0); [exact K0|]. apply Keep_trans with (b := c1); [exact K1|].
  apply Keep_trans with (b := c2).
  - eapply Keep_out; [|exact (build_packet_Keep _ _ _ _ _ (AInv_fresh _ _ _ _ HI1) E2)]. destruct pk; [apply fired_emit|reflexivity].
  - exact (timeout_loop_Keep _ _ _ _ _ _ E3).
Qed.

Lemma server_tick_Keep e S K c n now c' o : AInv S K c n -> server_tick e c now = (c', o) -> Keep c c' o.
Proof.
  unfold server_tick. intros HI E. destruct (_ >? _); [|injection E as <- <-; apply Keep_refl].
  destruct (build_packet e c now) as [c1 pk] eqn:E1.
  destruct (check_timeout true c1 now) as [c2 o2] eqn:E2. injection E as <- <-.
  apply Keep_out with (o := [] ++ o2).
  { cbn [app]. rewrite fired_app. destruct pk; [rewrite fired_emit|]; cbn; apply app_nil_r. }
  apply Keep_trans with (b := c1); [exact (build_packet_Keep _ _ _ _ _ (AInv_fresh _ _ _ _ HI) E1)|exact (timeout_loop_Keep _ _ _ _ _ _ E2)].
Qed.

Theorem step_Keep e S K c n x c' o : ev_open x -> AInv S K c n -> step e c x = (c', o) -> Keep c c' o.
Proof.
  intros Hop HI E. destruct x; cbn [step ev_open] in *.
  - exact (send_Keep _ _ _ _ _ _ _ E).
  - exact (client_tick_Keep _ _ _ _ _ _ _ _ _ HI E).
  - exact (server_tick_Keep _ _ _ _ _ _ _ _ HI E).
  - exact (recv_Keep _ _ _ _ _ _ E).
  - destruct Hop.
  - injection E as <- <-. destruct which as [|[[?|?|]|[?|?|]|]|?]; apply Keep_same; reflexivity.
  - injection E as <- <-. apply Keep_same; reflexivity.
  - injection E as <- <-. apply Keep_same; reflexivity.
  - injection E as <- <-. apply Keep_same; reflexivity.
Qed.

Theorem run_Keep e S K xs : forall c n c' oss, all_open xs -> AInv S K c n -> run e c xs = (c', oss) -> Keep c c' (concat oss).
Proof.
  induction xs as [|x r IH]; intros c n c' oss Hop HI E; cbn [run] in E.
  - injection E as <- <-. apply Keep_refl.
  - destruct Hop as [Hx Hr]. destruct (step e c x) as [c1 o] eqn:E1. destruct (run e c1 r) as [c2 os] eqn:E2.
    injection E as <- <-. destruct (step_AInv _ _ _ _ _ _ _ _ Hx HI E1) as (n1 & H1). cbn [concat].
    eapply Keep_trans; [exact (step_Keep _ _ _ _ _ _ _ _ Hx HI E1)|exact (IH _ _ _ _ Hr H1 E2)].
Qed.

(* the callback is reported at the latest at the first rate-gated tick past the deadline *)
Theorem pending_reported_by_deadline e S K xs c n c1 oss now c2 o id s t :
  all_open xs -> AInv S K c n -> Pending c id s t ->
  run e c xs = (c1, oss) ->
  c_send_interval c1 < now - c_last_send c1 -> server_tick e c1 now = (c2, o) ->
  c_out_timeout c1 < now - t ->
  In id (fired (concat oss ++ o)).
Proof.
  intros Hop HI HP E Hg Et Hd. rewrite fired_app. apply in_or_app.
  destruct (run_Keep _ _ _ _ _ _ _ _ Hop HI E id s t HP) as [F|P1]; [left; exact F|right].
  destruct (run_AInv _ _ _ _ _ _ _ _ Hop HI E) as (n1 & HI1).
  destruct (server_tick_Keep _ _ _ _ _ _ _ _ HI1 Et id s t P1) as [F|(ks & _ & _ & C)]; [exact F|exfalso].
  pose proof (server_tick_deadline _ _ _ _ _ _ _ _ HI1 Hg Et s t C). lia.
Qed.
