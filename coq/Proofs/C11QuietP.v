(* C11QuietP.v — what strangers can elicit from the server loop: nothing but a hello for a hello.
   A datagram from an address in neither pool that is not typed CLIENT_HELLO, a datagram from a half-open
   address that is not typed CHALLENGE_RESP, and anything the front gate refuses leave the server state
   untouched and produce NO output (no reply, no handler event, no log line of the loop) — also over whole
   batches. *)
From RecordUpdate Require Import RecordUpdate.
From Model Require Import Base SeqNum Wire Conn Server.
Import RecordSetNotations.
Open Scope Z_scope.

Lemma ptype_eqb_neq a b : a <> b -> ptype_eqb a b = false.
Proof. destruct a, b; intros H; try reflexivity; exfalso; apply H; reflexivity. Qed.

Lemma stranger_ignored h e s now a d xs :
  pget a (s_conns s) = None -> pget a (s_temp s) = None -> h_type (d_hdr d) <> CLIENT_HELLO ->
  disp_item h e s now a d xs = (s, []).
Proof. intros H1 H2 H3. unfold disp_item. rewrite H1, H2, (ptype_eqb_neq _ _ H3). reflexivity. Qed.

Lemma half_open_ignored h e s now a d xs cl :
  pget a (s_conns s) = None -> pget a (s_temp s) = Some cl -> h_type (d_hdr d) <> CHALLENGE_RESP ->
  disp_item h e s now a d xs = (s, []).
Proof. intros H1 H2 H3. unfold disp_item. rewrite H1, H2, (ptype_eqb_neq _ _ H3). reflexivity. Qed.

Lemma gate_refuses_unparsable bl it er : decode_header true (w_raw it) = Err er -> gate bl it = None.
Proof. intros H. unfold gate. rewrite H. destruct (zmem _ _); reflexivity. Qed.

(* an item that elicits nothing in state s *)
Definition quiet_item (s : srv) (it : witem) : Prop :=
  match gate (s_block s) it with
  | None => True
  | Some (a, d, _) =>
      pget a (s_conns s) = None /\
      match pget a (s_temp s) with
      | None => h_type (d_hdr d) <> CLIENT_HELLO
      | Some _ => h_type (d_hdr d) <> CHALLENGE_RESP
      end
  end.

Lemma quiet_batch h e s now q : Forall (quiet_item s) q -> disp_all h e s now q = (s, []).
Proof.
  induction q as [|it q IH]; intros HF; [reflexivity|].
  inversion HF as [|? ? Hit Hq]; subst. cbn [disp_all].
  destruct (s_dead s); [reflexivity|].
  unfold quiet_item in Hit.
  destruct (gate (s_block s) it) as [[[a d] xs]|].
  - destruct Hit as [Hc Ht].
    destruct (pget a (s_temp s)) as [cl|] eqn:Et.
    + rewrite (half_open_ignored h e s now a d xs cl Hc Et Ht). rewrite (IH Hq). reflexivity.
    + rewrite (stranger_ignored h e s now a d xs Hc Et Ht). rewrite (IH Hq). reflexivity.
  - rewrite (IH Hq). reflexivity.
Qed.
