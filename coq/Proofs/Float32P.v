(* Float32P.v — struct.pack('>f') as modelled with Flocq always yields a 32-bit pattern. *)
From Coq Require Import ZArith Lia.
From Flocq Require Import Core.Zaux IEEE754.BinarySingleNaN IEEE754.Binary IEEE754.Bits.
From Model Require Import Base Ser Float32.
Open Scope Z_scope.

Lemma bits32_range : forall x : binary32, 0 <= bits_of_b32 x < 2 ^ 32.
Proof.
  intro x. unfold bits_of_b32.
  pose proof (bits_of_binary_float_range 23 8 eq_refl eq_refl x) as H.
  change (2 ^ (23 + 8 + 1)) with (2 ^ 32) in H. exact H.
Qed.

Lemma SOk_inj : forall A (a b : A), SOk a = SOk b -> a = b.
Proof. intros A a b H. injection H. auto. Qed.

Lemma flocq_to32_range : forall b w, flocq_to32 b = SOk w -> 0 <= w < 2 ^ 32.
Proof.
  intros b w H. unfold flocq_to32 in H.
  destruct (f_is_nan b).
  - pose proof (Z.mod_pos_bound (f_man b / 2 ^ 29) (2 ^ 22) eq_refl) as Hm.
    set (x := (f_man b / 2 ^ 29) mod 2 ^ 22) in *. clearbody x.
    change (2 ^ 22) with 4194304 in Hm. change (2 ^ 31) with 2147483648 in H.
    change (2 ^ 32) with 4294967296.
    destruct (f_neg b); apply SOk_inj in H; rewrite <- H; lia.
  - destruct (b64_of_bits (b mod 2 ^ 64)) as [s|s|s pl Hp|s m e Hb].
    + apply SOk_inj in H; rewrite <- H. apply bits32_range.
    + apply SOk_inj in H; rewrite <- H. apply bits32_range.
    + apply SOk_inj in H; rewrite <- H. apply bits32_range.
    + set (r := binary_normalize 24 128 eq_refl eq_refl mode_NE (cond_Zopp s (Z.pos m)) e s) in H.
      clearbody r. destruct r; try discriminate; apply SOk_inj in H; rewrite <- H; apply bits32_range.
Qed.

Theorem flocq_fc_range : forall b w, to32 flocq_fc b = SOk w -> 0 <= w < 2 ^ 32.
Proof. exact flocq_to32_range. Qed.
