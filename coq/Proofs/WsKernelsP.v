(* WsKernelsP.v — the WebSocket header kernels REGENERATED from mpgameserver/http_server.py on every run
   (Gen/WsKernels.v, tools/py2v_bytes.py) are the hand-written model of Model/WsFrame.v:
   WebSocketFrame.serializeHeader, serializeDataHeader and parseHeader. *)
From Coq Require Import Lia ZifyBool.
From Model Require Import Base StructPack WsFrame.
From Gen Require Import WsKernels.
Open Scope Z_scope.

Lemma sp_be_is_ws_be_enc n z : sp_be n z = WsFrame.be_enc n z.
Proof. revert z; induction n as [|n IH]; intros z; cbn [sp_be WsFrame.be_enc]; [reflexivity|]. now rewrite IH. Qed.

Lemma spack_BB a b : spack [FB; FB] [a; b] = pack_BB a b.
Proof.
  unfold spack, pack1, pack_BB, bind, frange.
  change (2 ^ 8) with 256.
  destruct ((0 <=? a) && (a <? 256)) eqn:Ea.
  - destruct ((0 <=? b) && (b <? 256)) eqn:Eb.
    + replace ((0 <=? a) && (a <=? 255) && (0 <=? b) && (b <=? 255)) with true by lia. reflexivity.
    + replace ((0 <=? a) && (a <=? 255) && (0 <=? b) && (b <=? 255)) with false by lia. reflexivity.
  - replace ((0 <=? a) && (a <=? 255) && (0 <=? b) && (b <=? 255)) with false by lia. reflexivity.
Qed.

Lemma spack_H z : spack [FH] [z] = pack_H z.
Proof.
  unfold spack, pack1, pack_H, bind, frange. change (2 ^ 16) with 65536.
  replace ((0 <=? z) && (z <=? 65535)) with ((0 <=? z) && (z <? 65536)) by lia.
  destruct ((0 <=? z) && (z <? 65536)); [|reflexivity].
  rewrite app_nil_r. now rewrite sp_be_is_ws_be_enc.
Qed.

Lemma spack_Q z : spack [FQ] [z] = pack_Q z.
Proof.
  unfold spack, pack1, pack_Q, bind, frange.
  destruct ((0 <=? z) && (z <? 2 ^ 64)); [|reflexivity].
  rewrite app_nil_r. now rewrite sp_be_is_ws_be_enc.
Qed.

Lemma gen_ws_serializeHeader_spec f :
  gen_ws_serializeHeader (f_fin f) (f_rsv1 f) (f_rsv2 f) (f_rsv3 f) (opcode_val (f_opcode f)) (f_mask f) (f_plen f)
  = serialize_header f.
Proof.
  unfold gen_ws_serializeHeader, serialize_header, length_code.
  rewrite Z.shiftl_0_r, <- !Z.lor_assoc.
  destruct (f_plen f <=? 125); [|destruct (f_plen f <=? 65535)]; apply spack_BB.
Qed.

Lemma gen_ws_serializeDataHeader_spec f :
  gen_ws_serializeDataHeader (f_mask f) (f_plen f) (f_key f) = serialize_data_header f.
Proof.
  unfold gen_ws_serializeDataHeader, serialize_data_header.
  destruct (f_plen f >? 125).
  - destruct (f_plen f <=? 65535).
    + rewrite spack_H. destruct (pack_H (f_plen f)) as [w|e]; cbn [bind]; [|reflexivity].
      destruct (f_mask f =? 0); cbn [negb bind app]; now rewrite ?app_nil_r.
    + rewrite spack_Q. destruct (pack_Q (f_plen f)) as [w|e]; cbn [bind]; [|reflexivity].
      destruct (f_mask f =? 0); cbn [negb bind app]; now rewrite ?app_nil_r.
  - cbn [bind]. destruct (f_mask f =? 0); cbn [negb bind app]; reflexivity.
Qed.

(* parseHeader: the flag fields of every frame parse_frame returns are the kernel's, computed from the
   first two bytes; the opcode is the enum member with the kernel's integer *)
Lemma gen_ws_parseHeader_spec b0 b1 rest f buf' :
  parse_frame (b0 :: b1 :: rest) = (Ok f, buf') ->
  gen_ws_parseHeader (Z_of_byte b0) (Z_of_byte b1)
  = (f_fin f, f_rsv1 f, f_rsv2 f, f_rsv3 f, opcode_val (f_opcode f), f_mask f,
     Z.land (Z_of_byte b1) 127).
Proof.
  unfold parse_frame, gen_ws_parseHeader.
  cbn [takeZ dropZ Z.leb Z.compare Z.sub Z.add Z.opp Z.pos_sub Pos.pred_double].
  change (2 <=? 0) with false. cbn iota.
  change (2 - 1 <=? 0) with false. cbn iota.
  rewrite Z.shiftr_0_r.
  destruct (opcode_of_Z (Z.land (Z_of_byte b0) 15)) as [op|e] eqn:Eop; [|intros H; inversion H].
  assert (Hop : opcode_val op = Z.land (Z_of_byte b0) 15).
  { unfold opcode_of_Z in Eop.
    repeat match type of Eop with (if ?c then _ else _) = _ =>
      destruct c eqn:?; [inversion Eop; subst op; cbn; lia|] end. discriminate. }
  match goal with |- context [let '(rlen, buf) := ?X in _] => destruct X as [rlen buf] end.
  destruct rlen as [plen|e]; [|intros H; inversion H].
  match goal with |- context [let '(key, buf) := ?X in _] => destruct X as [key buf2] end.
  match goal with |- context [match ?X with Ok _ => _ | Err _ => _ end] => destruct X as [payload|e] end;
    [|intros H; inversion H].
  intros H. inversion H; subst; clear H. cbn [f_fin f_rsv1 f_rsv2 f_rsv3 f_opcode f_mask].
  rewrite Hop.
  destruct (Z.land (Z_of_byte b1) 128 =? 0); reflexivity.
Qed.
