(* LiveNetP.v — C05, liveness composition, part 2: the joint invariant of LiveP.v through every
   timed history of Model/LiveNet.v, and the theorems: an unfragmented guaranteed message sent over
   an established pair is handed to the peer application — exactly once — no later than
   max(t_heal, t_send) + max(keep-alive interval, send interval) + tau + d. *)
From Coq Require Import Lia ZifyBool.
From RecordUpdate Require Import RecordUpdate.
From Model Require Import Base SeqNum Wire Conn Client Net TimedNet LiveNet.
From Proofs Require Import Tac SeqNumP WireP ConnFrameP NonceP PackP AckP CallbackP CustodyP DeliverP AckNamesP AckNetP IdleP LiveP.
Import RecordSetNotations.
Open Scope Z_scope.

(* ================= the start ================= *)
Section Start.
  Variables (e : env) (k t0 th tau : Z) (x y : conn) (p : list byte) (ucb : icb).
  Hypothesis Hstart : live_start k t0 x y.
  Hypothesis Hlen : len p <= e_max_payload e.

  Let rid := c_next_rid x.
  Let mseq := seq_succ (c_seq_msg x).
  Let x1 := fst (send e x p RTimeout ucb).

  Lemma start_mseq : mseq = c_seq_msg x + 1 /\ 1 <= mseq <= HALF.
  Proof.
    destruct Hstart as (_ & _ & _ & _ & _ & _ & (Hm & _) & _). subst mseq.
    rewrite seq_succ_plain by (unfold RING, HALF in *; lia). lia.
  Qed.

  Lemma start_x1 : x1 = send_type x APP p RTimeout ucb.
  Proof.
    destruct Hstart as ((Hs & _) & _). subst x1. unfold send. rewrite Hs. cbn [status_eqb status_code Z.eqb negb].
    assert (len p >? e_max_payload e = false) as -> by lia. reflexivity.
  Qed.

  Lemma plain_pcbs_mine l : plain_pcbs l = true -> Forall (fun z => Forall (mine rid mseq p ucb) (snd z)) l.
  Proof.
    unfold plain_pcbs. rewrite forallb_forall. intros H. apply Forall_forall. intros z Hz.
    specialize (H z Hz). rewrite forallb_forall in H. apply Forall_forall. intros kb Hk. left. apply H. exact Hk.
  Qed.

  Lemma plain_pcbs_noK l s ks : plain_pcbs l = true -> dget s l = Some ks -> In (K rid mseq p ucb) ks -> False.
  Proof.
    intros H Hg Hin. pose proof (plain_pcbs_dget _ _ _ H Hg) as Hp. rewrite forallb_forall in Hp.
    specialize (Hp _ Hin). discriminate.
  Qed.

  Lemma LJ_start :
    LJ k rid mseq p ucb (c_ka_interval y) (c_send_interval y) th t0 (kmax x) tau (c_seq_send x) (c_incoming y)
       x1 y (wd0 (c_seq_send x) (base_time x1 t0)) (wd0 (c_seq_send y) (base_time y t0)) t0.
  Proof.
    destruct start_mseq as [Em Hm]. rewrite start_x1.
    destruct Hstart as ((X1 & X2 & X3 & X4 & X5 & X6 & X7) & Hy & Hpre & Hrid & Hnd & (B1 & B2 & B3 & B4) & (M1 & M2) & Hls & HM).
    constructor; cbn [wd0 wd_n wd_log wd_pend].
    - constructor; unfold send_type; cbn.
      + rewrite X3. cbn. constructor; [|constructor]. exists 0. reflexivity.
      + left. exact X4.
      + apply plain_pcbs_mine. exact X5.
      + intros s l. rewrite Hpre. cbn. discriminate.
      + right. left. rewrite X3. discriminate.
    - exact X1.
    - exact X2.
    - exact X6.
    - exact X7.
    - reflexivity.
    - unfold send_type. cbn. unfold HALF in *. lia.
    - intros i t dg [].
    - intros i t dg t' dg' [].
    - intros s ks Hg Hin. exfalso. eapply plain_pcbs_noK; [exact X5|exact Hg|exact Hin].
    - apply idle_ep_ok. exact Hy.
    - destruct B4 as [[C1 C2]|C1].
      + exists None. split; [|split; [discriminate|split; [intros i t dg []|intros j t dg []]]].
        cbn. destruct (c_bf_pkt y) as [nb bits cur]. cbn in *. subst. reflexivity.
      + destruct (R_of_bits (c_bf_pkt y) (bf_cur (c_bf_pkt y))) as (acc & HR); try (rewrite B1); try lia.
        { symmetry. apply wire_small. unfold RING, HALF in *. lia. }
        exists (Some (bf_cur (c_bf_pkt y), acc)). split; [split; [exact HR|exact B1]|].
        split; [intros m acc' Hg; injection Hg as <- <-; lia|]. split; [intros i t dg _ []|intros j t dg []].
    - right. split; [reflexivity|]. unfold mfresh. fold mseq. lia.
    - intros H. change (zmem (c_next_rid x) (c_done x) = true) in H. congruence.
    - unfold send_type. cbn. lia.
    - right. right. split; [exact Hnd|]. unfold send_type. cbn. lia.
  Qed.
End Start.

Lemma wd_lookup_log w i t dg : wd_lookup w i = Some (t, dg) -> In (i, t, dg) (wd_log w).
Proof. apply wd_lookup_in. Qed.

(* ================= the client sends, the server-side connection receives ================= *)
Section CliToSrv.
  Variables (e : env) (P : tparams) (k t0 th : Z) (cli srv : conn) (p : list byte) (ucb : icb).
  Hypothesis Hstart : live_start k t0 cli srv.
  Hypothesis Henv : lenv_ok e.
  Hypothesis Hlen : len p <= e_max_payload e.

  Definition cinv (n : tnet) : Prop :=
    LJ k (c_next_rid cli) (seq_succ (c_seq_msg cli)) p ucb (c_ka_interval srv) (c_send_interval srv)
       th t0 (kmax cli) (tp_tau P) (c_seq_send cli) (c_incoming srv)
       (t_cli n) (t_srv n) (t_cs n) (t_sc n) (t_tickC n) /\ t_swept n = false.

  Let Hrid : 0 <= c_next_rid cli.
  Proof. destruct Hstart as (_ & _ & _ & H & _). exact H. Qed.
  Let Hmseq : 1 <= seq_succ (c_seq_msg cli) <= HALF.
  Proof. exact (proj2 (start_mseq k t0 cli srv Hstart)). Qed.
  Let HM : 0 <= kmax cli.
  Proof. destruct Hstart as (_ & _ & _ & _ & _ & _ & _ & _ & H). exact H. Qed.

  Lemma cinv_init : cinv (after_send e SCli cli srv p ucb t0).
  Proof.
    unfold cinv, after_send, tnet0. cbn [t_cli t_srv t_cs t_sc t_tickC t_swept]. split; [|reflexivity].
    pose proof (LJ_start e k t0 th (tp_tau P) cli srv p ucb Hstart Hlen) as H.
    assert (Hs : c_seq_send (fst (send e cli p RTimeout ucb)) = c_seq_send cli)
      by (rewrite (start_x1 e k t0 cli srv p ucb Hstart Hlen); reflexivity).
    rewrite Hs. exact H.
  Qed.

  Lemma cinv_step n v : cinv n -> hok P SCli th n v -> cinv (tstep e P n v).
  Proof.
    intros [I Isw] (Hclk & Htau & Hot & Hshort & (_ & Hopen) & Hsrc).
    cbn [snd_tick fwd] in *.
    destruct v as [now s|now s|now]; cbn [tev_time] in *; cbn [tstep].
    - (* UdpClient.update of the sender *)
      destruct (client_tick e (t_cli n) now (rx_of (t_sc n) s)) as [c' o] eqn:E.
      pose proof I as [A1 A2 A3 A4 A5 A6 A7 A8 A8' A9 A10 A11 A12 A13 A14 A15].
      rewrite A3 in Hsrc.
      assert (Hrx : match rx_of (t_sc n) s with
                    | RxNone => True
                    | RxBadHeader _ => False
                    | RxDgram dg _ => ka_dgram k dg \/ forall ms, open_dgram (Some k) dg <> Ok ms
                    end).
      { destruct s as [|j|dg orcs]; cbn [rx_of hsrc_ok] in *; [exact Logic.I| |right; exact Hsrc].
        destruct Hsrc as (t & dg & Hl). rewrite Hl. left.
        destruct A11 as (g & _ & _ & _ & W4). apply (W4 j t dg). apply wd_lookup_log. exact Hl. }
      destruct (client_tick_X e k _ _ p ucb Hrid Hmseq Hlen Henv _ _ _ _ _ A1 A2 A3 A4 A5 Hopen Hrx E)
        as (c1 & dg & X & Hs & T).
      assert (Hst' : c_status c' = CONNECTED).
      { destruct T as [_ [_ _ F3 _ _ _ _ _ _ _ _] _ _ _]. destruct X as [_ _ _ S _ _ _ _]. congruence. }
      rewrite Hst'. cbn [status_eqb status_code Z.eqb Pos.eqb].
      split; [|exact Isw]. cbn [t_cli t_srv t_cs t_sc t_tickC].
      eapply (LJ_xtail _ _ _ _ _ _ _ _ _ _ _ _ _ HM); [|exact T|exact Htau|exact Hshort].
      eapply LJ_xrecv; [exact I|exact X|].
      destruct Hs as [(Hk & orcs & Hr)|Hs]; [left|right; exact Hs].
      destruct s as [|j|dg' orcs']; cbn [rx_of hsrc_ok] in *; [discriminate| |].
      + destruct Hsrc as (t & dg1 & Hl). rewrite Hl in Hr. injection Hr as <- _.
        exists j, t. apply wd_lookup_log. exact Hl.
      + injection Hr as <- _. exfalso. eapply Hsrc. apply open_ka. exact Hk.
    - (* the server loop hands a datagram to the receiving connection *)
      rewrite Isw.
      pose proof I as [A1 A2 A3 A4 A5 A6 A7 A8 A8' A9 A10 A11 A12 A13 A14 A15].
      pose proof (eo_key _ _ _ _ A10) as Hky. rewrite Hky in Hsrc.
      destruct s as [|i|dg orcs]; cbn [rx_of hsrc_ok] in *.
      + split; [exact I|exact Isw].
      + destruct Hsrc as (t & dg & Hl). rewrite Hl.
        destruct (recv (t_srv n) now dg []) as [c' o] eqn:E.
        destruct (LJ_yrecv _ _ _ _ _ Hmseq _ _ _ _ _ _ _ _ _ _ _ _ _ _ _ _ _ _ _ _ I (wd_lookup_log _ _ _ _ Hl) E) as (I' & _ & Ne).
        rewrite (dg_no_emit _ Ne). split; [exact I'|exact Isw].
      + destruct (recv (t_srv n) now dg orcs) as [c' o] eqn:E.
        rewrite (recv_junk k _ _ _ _ Hky Hsrc) in E. injection E as <- <-.
        split; [|exact Isw]. cbn [t_cli t_srv t_cs t_sc t_tickC flat_map dg_of app wd_emit fold_left].
        eapply (LJ_ysame _ _ _ _ _ _ _ _ _ _ _ _ _ _ _ _ _ _ _ (SJunk dg orcs)); [exact I|sess_triv| |exact Logic.I].
        exact (eo_quiet _ _ _ _ A10).
    - (* the server loop's sweep reaches the receiving connection *)
      rewrite Isw. unfold server_sweep.
      pose proof I as [A1 A2 A3 A4 A5 A6 A7 A8 A8' A9 A10 A11 A12 A13 A14 A15].
      rewrite (eo_status _ _ _ _ A10). cbn [status_eqb status_code Z.eqb Pos.eqb].
      destruct (server_tick e (t_srv n) now) as [c' o] eqn:E. rewrite Hopen.
      destruct (server_tick_Y e k _ _ _ _ _ _ A10 E) as (Y1 & Y2 & Y3 & Y4 & Y5).
      split; [|reflexivity]. cbn [t_cli t_srv t_cs t_sc t_tickC].
      eapply LJ_ytick; eassumption.
  Qed.

  Lemma cinv_run vs : forall n, cinv n -> hvalid e P SCli th n vs -> cinv (trun e P n vs).
  Proof.
    induction vs as [|v r IH]; intros n I Hv; [exact I|].
    cbn [hvalid] in Hv. destruct Hv as [Hok Hr]. cbn [trun fold_left]. apply IH; [|exact Hr].
    apply cinv_step; assumption.
  Qed.
  (* the theorem: delivered — exactly once — before any moment later than the bound *)
  Theorem cli_to_srv_delivered hs now :
    0 <= tp_d P ->
    hvalid e P SCli th (after_send e SCli cli srv p ucb t0) hs ->
    hnow P SCli th (trun e P (after_send e SCli cli srv p ucb t0) hs) now ->
    Z.max th t0 + live_bound P cli < now ->
    c_incoming (t_srv (trun e P (after_send e SCli cli srv p ucb t0) hs))
    = c_incoming srv ++ [(seq_succ (c_seq_msg cli), p)].
  Proof.
    intros Hd Hv (Hclk & Htau & Hot) Hlate.
    destruct (cinv_run hs _ cinv_init Hv) as [[A1 A2 A3 A4 A5 A6 A7 A8 A8' A9 A10 A11 A12 A13 A14 A15] _].
    cbn [snd_tick fwd] in *. unfold live_bound in Hlate.
    destruct A15 as [H|[(i & t & dg & P1 & P2 & P3 & P4)|[H1 H2]]]; [exact H| |]; exfalso.
    - unfold on_time_from in Hot. rewrite Forall_forall in Hot. specialize (Hot _ P2). cbn [snd] in Hot. lia.
    - lia.
  Qed.

  (* at every moment of every history: nothing but the message is appended, and at most once *)
  Theorem cli_to_srv_at_most_once hs :
    hvalid e P SCli th (after_send e SCli cli srv p ucb t0) hs ->
    let n := trun e P (after_send e SCli cli srv p ucb t0) hs in
    c_incoming (t_srv n) = c_incoming srv \/ c_incoming (t_srv n) = c_incoming srv ++ [(seq_succ (c_seq_msg cli), p)].
  Proof.
    intros Hv n. destruct (cinv_run hs _ cinv_init Hv) as [[A1 A2 A3 A4 A5 A6 A7 A8 A8' A9 A10 A11 A12 A13 A14 A15] _].
    destruct A12 as [[H _]|[H _]]; [right|left]; exact H.
  Qed.

  (* the sender's callback machinery reports success only after the delivery *)
  Theorem cli_to_srv_done_means_delivered hs :
    hvalid e P SCli th (after_send e SCli cli srv p ucb t0) hs ->
    let n := trun e P (after_send e SCli cli srv p ucb t0) hs in
    zmem (c_next_rid cli) (c_done (t_cli n)) = true ->
    c_incoming (t_srv n) = c_incoming srv ++ [(seq_succ (c_seq_msg cli), p)].
  Proof.
    intros Hv n. destruct (cinv_run hs _ cinv_init Hv) as [[A1 A2 A3 A4 A5 A6 A7 A8 A8' A9 A10 A11 A12 A13 A14 A15] _].
    exact A13.
  Qed.

  Theorem cli_to_srv_custody hs :
    hvalid e P SCli th (after_send e SCli cli srv p ucb t0) hs ->
    let n := trun e P (after_send e SCli cli srv p ucb t0) hs in
    let rs := Retry (c_next_rid cli) (seq_succ (c_seq_msg cli)) APP p ucb in
    c_incoming (t_srv n) = c_incoming srv ->
    zmem (c_next_rid cli) (c_done (t_cli n)) = false /\
    ((exists m, In m (c_outgoing (t_cli n)) /\ m_seq m = seq_succ (c_seq_msg cli) /\ m_payload m = p
                /\ m_retry m = RTimeout /\ m_cb m = Some rs)
     \/ (exists m, In (seq_succ (c_seq_msg cli), m) (c_pretry_msg (t_cli n)) /\ m_payload m = p /\ m_cb m = Some rs)).
  Proof.
    intros Hv n rs Hu. destruct (cinv_run hs _ cinv_init Hv) as [I _]. eapply LJ_custody; [exact HM|exact I|exact Hu].
  Qed.
End CliToSrv.

(* ================= the executable hypotheses imply the stated ones ================= *)
Lemma on_time_fromb_ok th w d now : on_time_fromb th w d now = true -> on_time_from th w d now.
Proof.
  unfold on_time_fromb, on_time_from. rewrite forallb_forall, Forall_forall. intros H q Hq. specialize (H q Hq). lia.
Qed.

Lemma hsrc_okb_ok key w s : hsrc_okb key w s = true -> hsrc_ok key w s.
Proof.
  destruct s as [|i|dg orcs]; cbn [hsrc_okb hsrc_ok]; [auto| |].
  - destruct (wd_lookup w i) as [[t dg]|]; [|discriminate]. intros _. exists t, dg. reflexivity.
  - destruct (open_dgram key dg); [discriminate|]. intros _ ms. discriminate.
Qed.

Lemma stays_openb_ok T n v : stays_openb T n v = true -> stays_open T n v.
Proof.
  unfold stays_openb, stays_open. rewrite andb_true_iff. intros [A B].
  split; [destruct (t_swept n); [discriminate|reflexivity]|].
  destruct v; [|exact I|]; apply negb_true_iff in B; exact B.
Qed.

Lemma hokb_ok P sd th n v : hokb P sd th n v = true -> hok P sd th n v.
Proof.
  unfold hokb, hok. cbv zeta. rewrite !andb_true_iff. intros [[[[[A B] C] D] E] F].
  split; [lia|]. split; [lia|]. split; [apply on_time_fromb_ok; exact C|]. split; [lia|].
  split; [apply stays_openb_ok; exact E|]. destruct v; try apply hsrc_okb_ok; auto.
Qed.

Lemma hvalidb_ok e P sd th vs : forall n, hvalidb e P sd th n vs = true -> hvalid e P sd th n vs.
Proof.
  induction vs as [|v r IH]; intros n H; [exact I|]. cbn [hvalidb hvalid] in *.
  apply andb_prop in H as [H1 H2]. split; [apply hokb_ok; exact H1|apply IH; exact H2].
Qed.

Lemma hnowb_ok P sd th n now : hnowb P sd th n now = true -> hnow P sd th n now.
Proof.
  unfold hnowb, hnow. rewrite !andb_true_iff. intros [[A B] C].
  split; [lia|]. split; [lia|apply on_time_fromb_ok; exact C].
Qed.

Lemma live_startb_ok k t0 x y : live_startb k t0 x y = true -> live_start k t0 x y.
Proof.
  unfold live_startb, live_start, pkt_behindb, pkt_behind, msg_behindb, msg_behind.
  rewrite !andb_true_iff, !orb_true_iff, !andb_true_iff.
  intros [[[[[[[[A B] C] D] E] F] G] H] J].
  split; [apply idle_epb_ok; exact A|]. split; [apply idle_epb_ok; exact B|].
  split; [destruct (c_pretry x); [reflexivity|discriminate]|]. split; [lia|].
  split; [destruct (zmem _ _); [discriminate|reflexivity]|].
  split; [|split; [|split; lia]].
  - destruct F as [[[[[F1 F2] F3] F4] F5] F6]. repeat split; try lia.
  - destruct G as [[G1 G2] G3]. repeat split; try lia.
Qed.

(* ================= the server-side connection sends, the client receives ================= *)
Section SrvToCli.
  Variables (e : env) (P : tparams) (k t0 th : Z) (cli srv : conn) (p : list byte) (ucb : icb).
  Hypothesis Hstart : live_start k t0 srv cli.
  Hypothesis Henv : lenv_ok e.
  Hypothesis Hlen : len p <= e_max_payload e.

  Definition sinv (n : tnet) : Prop :=
    LJ k (c_next_rid srv) (seq_succ (c_seq_msg srv)) p ucb (c_ka_interval cli) (c_send_interval cli)
       th t0 (kmax srv) (tp_tau P) (c_seq_send srv) (c_incoming cli)
       (t_srv n) (t_cli n) (t_sc n) (t_cs n) (t_tickS n) /\ t_swept n = false.

  Let Hrid : 0 <= c_next_rid srv.
  Proof. destruct Hstart as (_ & _ & _ & H & _). exact H. Qed.
  Let Hmseq : 1 <= seq_succ (c_seq_msg srv) <= HALF.
  Proof. exact (proj2 (start_mseq k t0 srv cli Hstart)). Qed.
  Let HM : 0 <= kmax srv.
  Proof. destruct Hstart as (_ & _ & _ & _ & _ & _ & _ & _ & H). exact H. Qed.

  Lemma sinv_init : sinv (after_send e SSrv cli srv p ucb t0).
  Proof.
    unfold sinv, after_send, tnet0. cbn [t_cli t_srv t_cs t_sc t_tickS t_swept]. split; [|reflexivity].
    pose proof (LJ_start e k t0 th (tp_tau P) srv cli p ucb Hstart Hlen) as H.
    assert (Hs : c_seq_send (fst (send e srv p RTimeout ucb)) = c_seq_send srv)
      by (rewrite (start_x1 e k t0 srv cli p ucb Hstart Hlen); reflexivity).
    rewrite Hs. exact H.
  Qed.

  Lemma sinv_step n v : sinv n -> hok P SSrv th n v -> sinv (tstep e P n v).
  Proof.
    intros [I Isw] (Hclk & Htau & Hot & Hshort & (_ & Hopen) & Hsrc).
    cbn [snd_tick fwd] in *.
    destruct v as [now s|now s|now]; cbn [tev_time] in *; cbn [tstep].
    - (* UdpClient.update of the receiver *)
      destruct (client_tick e (t_cli n) now (rx_of (t_sc n) s)) as [c' o] eqn:E.
      pose proof I as [A1 A2 A3 A4 A5 A6 A7 A8 A8' A9 A10 A11 A12 A13 A14 A15].
      pose proof (eo_key _ _ _ _ A10) as Hky. rewrite Hky in Hsrc.
      (* the state after the socket has been read *)
      assert (Hrd : exists y1 o1,
                 match rx_of (t_sc n) s with
                 | RxNone => y1 = t_cli n /\ o1 = []
                 | RxBadHeader _ => False
                 | RxDgram dg orcs => recv (t_cli n) now dg orcs = (y1, o1)
                 end /\ raised o1 = false /\ no_emit o1 /\
                 LJ k (c_next_rid srv) (seq_succ (c_seq_msg srv)) p ucb (c_ka_interval cli) (c_send_interval cli)
                    th t0 (kmax srv) (tp_tau P) (c_seq_send srv) (c_incoming cli)
                    (t_srv n) y1 (wd_present (t_sc n) s) (t_cs n) (t_tickS n)).
      { destruct s as [|i|dg orcs]; cbn [rx_of hsrc_ok] in *.
        - exists (t_cli n), []. split; [auto|]. split; [reflexivity|]. split; [apply no_emit_nil|exact I].
        - destruct Hsrc as (t & dg & Hl). rewrite Hl.
          destruct (recv (t_cli n) now dg []) as [y1 o1] eqn:Er. exists y1, o1. split; [reflexivity|].
          destruct (LJ_yrecv _ _ _ _ _ Hmseq _ _ _ _ _ _ _ _ _ _ _ _ _ _ _ _ _ _ _ _ I (wd_lookup_log _ _ _ _ Hl) Er) as (I' & Ra & Ne).
          auto.
        - rewrite (recv_junk k _ _ _ _ Hky Hsrc). eexists. eexists. split; [reflexivity|]. split; [reflexivity|].
          split; [intros z [<-|[]]; reflexivity|].
          eapply (LJ_ysame _ _ _ _ _ _ _ _ _ _ _ _ _ _ _ _ _ _ _ (SJunk dg orcs)); [exact I|sess_triv| |exact Logic.I].
          exact (eo_quiet _ _ _ _ A10). }
      destruct Hrd as (y1 & o1 & Hr & Ra & Ne & I1).
      destruct (client_tick_Y e k _ _ _ _ _ _ _ _ _ A10 Hopen Hr Ra Ne (j_y _ _ _ _ _ _ _ _ _ _ _ _ _ _ _ _ _ _ I1) E)
        as (Y1 & Y2 & Y3 & Y4 & Y5).
      rewrite (eo_status _ _ _ _ Y1). cbn [status_eqb status_code Z.eqb Pos.eqb].
      split; [|exact Isw]. cbn [t_cli t_srv t_cs t_sc t_tickS].
      eapply LJ_ytick; eassumption.
    - (* the server loop hands a datagram to the sending connection *)
      rewrite Isw.
      pose proof I as [A1 A2 A3 A4 A5 A6 A7 A8 A8' A9 A10 A11 A12 A13 A14 A15].
      rewrite A3 in Hsrc.
      destruct s as [|j|dg orcs]; cbn [rx_of hsrc_ok] in *.
      + split; [exact I|exact Isw].
      + destruct Hsrc as (t & dg & Hl). rewrite Hl.
        destruct (recv (t_srv n) now dg []) as [c' o] eqn:E.
        assert (Hka : ka_dgram k dg).
        { destruct A11 as (g & _ & _ & _ & W4). apply (W4 j t dg). apply wd_lookup_log. exact Hl. }
        destruct (recv_X k _ _ p ucb Hrid _ _ _ _ _ _ A1 A3 (or_introl Hka) E) as (X & _ & Ne).
        rewrite (dg_no_emit _ Ne). split; [|exact Isw]. cbn [t_cli t_srv t_cs t_sc t_tickS wd_emit fold_left].
        eapply (LJ_xrecv _ _ _ _ _ _ _ _ _ _ _ _ _ _ _ _ _ _ _ _ (SPeer j)); [exact I|exact X|].
        left. exists j, t. apply wd_lookup_log. exact Hl.
      + destruct (recv (t_srv n) now dg orcs) as [c' o] eqn:E.
        destruct (recv_X k _ _ p ucb Hrid _ _ _ _ _ _ A1 A3 (or_intror Hsrc) E) as (X & _ & Ne).
        rewrite (dg_no_emit _ Ne). split; [|exact Isw]. cbn [t_cli t_srv t_cs t_sc t_tickS wd_emit fold_left].
        eapply (LJ_xrecv _ _ _ _ _ _ _ _ _ _ _ _ _ _ _ _ _ _ _ _ (SJunk dg orcs)); [exact I|exact X|].
        right. rewrite (recv_junk k _ _ _ _ A3 Hsrc) in E. injection E as <- _. auto.
    - (* the server loop's sweep: update() of the sending connection *)
      rewrite Isw. unfold server_sweep.
      pose proof I as [A1 A2 A3 A4 A5 A6 A7 A8 A8' A9 A10 A11 A12 A13 A14 A15].
      rewrite A2. cbn [status_eqb status_code Z.eqb Pos.eqb].
      destruct (server_tick e (t_srv n) now) as [c' o] eqn:E. rewrite Hopen.
      pose proof (server_tick_X e k _ _ p ucb Hrid Hmseq Hlen Henv _ _ _ _ A1 A2 A3 A5 E) as T.
      split; [|reflexivity]. cbn [t_cli t_srv t_cs t_sc t_tickS].
      eapply (LJ_xtail _ _ _ _ _ _ _ _ _ _ _ _ _ HM); [exact I|exact T|exact Htau|exact Hshort].
  Qed.

  Lemma sinv_run vs : forall n, sinv n -> hvalid e P SSrv th n vs -> sinv (trun e P n vs).
  Proof.
    induction vs as [|v r IH]; intros n I Hv; [exact I|].
    cbn [hvalid] in Hv. destruct Hv as [Hok Hr]. cbn [trun fold_left]. apply IH; [|exact Hr].
    apply sinv_step; assumption.
  Qed.

  Theorem srv_to_cli_delivered hs now :
    0 <= tp_d P ->
    hvalid e P SSrv th (after_send e SSrv cli srv p ucb t0) hs ->
    hnow P SSrv th (trun e P (after_send e SSrv cli srv p ucb t0) hs) now ->
    Z.max th t0 + live_bound P srv < now ->
    c_incoming (t_cli (trun e P (after_send e SSrv cli srv p ucb t0) hs))
    = c_incoming cli ++ [(seq_succ (c_seq_msg srv), p)].
  Proof.
    intros Hd Hv (Hclk & Htau & Hot) Hlate.
    destruct (sinv_run hs _ sinv_init Hv) as [[A1 A2 A3 A4 A5 A6 A7 A8 A8' A9 A10 A11 A12 A13 A14 A15] _].
    cbn [snd_tick fwd] in *. unfold live_bound in Hlate.
    destruct A15 as [H|[(i & t & dg & P1 & P2 & P3 & P4)|[H1 H2]]]; [exact H| |]; exfalso.
    - unfold on_time_from in Hot. rewrite Forall_forall in Hot. specialize (Hot _ P2). cbn [snd] in Hot. lia.
    - lia.
  Qed.

  Theorem srv_to_cli_at_most_once hs :
    hvalid e P SSrv th (after_send e SSrv cli srv p ucb t0) hs ->
    let n := trun e P (after_send e SSrv cli srv p ucb t0) hs in
    c_incoming (t_cli n) = c_incoming cli \/ c_incoming (t_cli n) = c_incoming cli ++ [(seq_succ (c_seq_msg srv), p)].
  Proof.
    intros Hv n. destruct (sinv_run hs _ sinv_init Hv) as [[A1 A2 A3 A4 A5 A6 A7 A8 A8' A9 A10 A11 A12 A13 A14 A15] _].
    destruct A12 as [[H _]|[H _]]; [right|left]; exact H.
  Qed.

  Theorem srv_to_cli_done_means_delivered hs :
    hvalid e P SSrv th (after_send e SSrv cli srv p ucb t0) hs ->
    let n := trun e P (after_send e SSrv cli srv p ucb t0) hs in
    zmem (c_next_rid srv) (c_done (t_srv n)) = true ->
    c_incoming (t_cli n) = c_incoming cli ++ [(seq_succ (c_seq_msg srv), p)].
  Proof.
    intros Hv n. destruct (sinv_run hs _ sinv_init Hv) as [[A1 A2 A3 A4 A5 A6 A7 A8 A8' A9 A10 A11 A12 A13 A14 A15] _].
    exact A13.
  Qed.

  Theorem srv_to_cli_custody hs :
    hvalid e P SSrv th (after_send e SSrv cli srv p ucb t0) hs ->
    let n := trun e P (after_send e SSrv cli srv p ucb t0) hs in
    let rs := Retry (c_next_rid srv) (seq_succ (c_seq_msg srv)) APP p ucb in
    c_incoming (t_cli n) = c_incoming cli ->
    zmem (c_next_rid srv) (c_done (t_srv n)) = false /\
    ((exists m, In m (c_outgoing (t_srv n)) /\ m_seq m = seq_succ (c_seq_msg srv) /\ m_payload m = p
                /\ m_retry m = RTimeout /\ m_cb m = Some rs)
     \/ (exists m, In (seq_succ (c_seq_msg srv), m) (c_pretry_msg (t_srv n)) /\ m_payload m = p /\ m_cb m = Some rs)).
  Proof.
    intros Hv n rs Hu. destruct (sinv_run hs _ sinv_init Hv) as [I _]. eapply LJ_custody; [exact HM|exact I|exact Hu].
  Qed.
End SrvToCli.

Lemma executable_hypotheses e P sd th n vs k t0 x y now :
  (hvalidb e P sd th n vs = true -> hvalid e P sd th n vs) /\
  (hnowb P sd th n now = true -> hnow P sd th n now) /\
  (live_startb k t0 x y = true -> live_start k t0 x y).
Proof. split; [apply hvalidb_ok|split; [apply hnowb_ok|apply live_startb_ok]]. Qed.

(* ================= the bound cannot be lowered by more than two ticks ================= *)
Definition tight_t0 : Z := 1536000.
Definition tight_cli : conn := (conn0 false) <| c_key := Some 7 |> <| c_status := CONNECTED |> <| c_last_recv := tight_t0 |>.
Definition tight_srv : conn := (conn0 true) <| c_key := Some 7 |> <| c_status := CONNECTED |> <| c_last_recv := tight_t0 |>.
Definition tight_env : env := {| e_max_payload := 1434; e_max_frag := 1024; e_max_frags := 8192 |}.
Definition tight_P : tparams := {| tp_tau := 300; tp_d := 100; tp_life := 0; tp_T := 5 * TICKS |}.
(* the first datagram leaves one tick before the network heals and is lost; the update() at
   t0 + 1835 finds the retry one tick too young; the next update() is tau later; the network takes d *)
Definition tight_hs : list tev :=
  [TClient (tight_t0 + 300) SNone; TClient (tight_t0 + 600) SNone; TClient (tight_t0 + 900) SNone;
   TClient (tight_t0 + 1200) SNone; TClient (tight_t0 + 1500) SNone; TClient (tight_t0 + 1800) SNone;
   TClient (tight_t0 + 1835) SNone; TClient (tight_t0 + 2135) SNone].

Lemma bound_nearly_tight_proof :
  exists e P k t0 th cli srv p ucb hs now,
    live_start k t0 cli srv /\ lenv_ok e /\ len p <= e_max_payload e /\ 0 <= tp_d P
    /\ hvalid e P SCli th (after_send e SCli cli srv p ucb t0) hs
    /\ hnow P SCli th (trun e P (after_send e SCli cli srv p ucb t0) hs) now
    /\ now = Z.max th t0 + live_bound P cli - 2
    /\ c_incoming (t_srv (trun e P (after_send e SCli cli srv p ucb t0) hs)) = c_incoming srv.
Proof.
  exists tight_env, tight_P, 7, tight_t0, (tight_t0 + 301), tight_cli, tight_srv, [x2a], (IUser 1), tight_hs, (tight_t0 + 2235).
  split; [apply live_startb_ok; vm_compute; reflexivity|].
  split; [vm_compute; reflexivity|]. split; [vm_compute; discriminate|]. split; [vm_compute; discriminate|].
  split; [apply hvalidb_ok; vm_compute; reflexivity|]. split; [apply hnowb_ok; vm_compute; reflexivity|].
  split; vm_compute; reflexivity.
Qed.
