(* C13P.v — proofs of the statements of Properties/C13.v. *)
From Coq Require Import Lia ZifyBool.
From Model Require Import Base Utf8 Ser.
From Proofs Require Import Tac BytesP Utf8P.
From Proofs Require Import SerP SerNormP.
Open Scope Z_scope.

(* k values read one after another from one stream (k calls of deserialize_value / loadb) *)
Fixpoint decode_seq (fc : fconv) (pk : value -> option serr) (reg : registry) (fuel : nat) (k : nat)
                    (bs : list byte) : sres (list value * list byte) :=
  match k with
  | O => SOk ([], bs)
  | S k' =>
      dos p <- decode fc pk reg fuel bs;
      dos q <- decode_seq fc pk reg fuel k' (snd p);
      SOk (fst p :: fst q, snd q)
  end.

(* what serialize_value accepts (the registry only matters for enum members): the domain of the
   encoder.  wf = accepts + "object classes are registered with that many fields, class ids are
   not shadowed by base type ids" *)
Fixpoint accepts (fc : fconv) (reg : registry) (v : value) : Prop :=
  match v with
  | VNone | VBool _ => True
  | VInt z => - 2 ^ 63 <= z < 2 ^ 63
  | VFloat b => exists w, to32 fc b = SOk w
  | VStr s => exists bs, utf8_encode s = Some bs /\ len bs <= MAXB
  | VBytes bs => len bs <= MAXB
  | VList l | VTuple l | VSet l => len l <= MAXA /\ fold_right (fun x P => accepts fc reg x /\ P) True l
  | VDict kv =>
      len kv <= MAXA /\ fold_right (fun p P => accepts fc reg (fst p) /\ accepts fc reg (snd p) /\ P) True kv
  | VObj t fs =>
      tid_packable t = true /\ len fs < 2 ^ 63 /\ fold_right (fun x P => accepts fc reg x /\ P) True fs
  | VEnum t x =>
      tid_packable t = true /\ (exists ms, reg_find reg t = Some (CEnum ms) /\ mem_py x ms = SOk true)
      /\ hashable x = true /\ accepts fc reg x
  | VUnsup => False
  end.

Lemma sbind_ok : forall A B (r : sres A) (f : A -> sres B) b,
  sbind r f = SOk b -> exists a, r = SOk a /\ f a = SOk b.
Proof. intros A B r f b H. destruct r as [a|e]; [eauto | discriminate]. Qed.

Section C13.
  Variable fc : fconv.
  Variable pk : value -> option serr.
  Variable reg : registry.

  Notation encv := (enc fc reg).

  (* ---------- round trip at the level of decode *)
  Section RoundTrip.
  Hypothesis fc_range : forall b w, to32 fc b = SOk w -> 0 <= w < 2 ^ 32.

  Theorem C13_roundtrip_proof : forall v nv,
    wf fc reg v -> norm fc v = SOk nv ->
    exists bs, encv v = SOk bs /\
      forall fuel rest, (need v <= fuel)%nat -> decode fc pk reg fuel (bs ++ rest) = SOk (nv, rest).
  Proof.
    intros v nv Hwf Hn.
    destruct (roundtrip_value fc pk reg fc_range v nv Hwf Hn) as [bs [E R]].
    exists bs. split; [exact E|]. intros fuel rest Hf.
    destruct (R fuel rest Hf (st0 (bs ++ rest)) eq_refl) as [s' [Es Rs]].
    unfold decode. rewrite Es, Rs. reflexivity.
  Qed.

  Theorem C13_concat_proof : forall vs nvs,
    Forall2 (fun v nv => wf fc reg v /\ norm fc v = SOk nv) vs nvs ->
    exists bss, mapM encv vs = SOk bss /\
      forall fuel rest, (forall v, In v vs -> (need v <= fuel)%nat) ->
        decode_seq fc pk reg fuel (length vs) (concat bss ++ rest) = SOk (nvs, rest).
  Proof.
    induction 1 as [|v nv vs nvs [Hwf Hn] _ [bss [Eb IH]]].
    - exists []. split; [reflexivity|]. intros. reflexivity.
    - destruct (C13_roundtrip_proof v nv Hwf Hn) as [bs [E R]].
      exists (bs :: bss). split.
      + rewrite mapM_cons, E. cbn [sbind]. rewrite Eb. reflexivity.
      + intros fuel rest Hf. cbn [length decode_seq concat]. rewrite <- app_assoc.
        rewrite (R fuel (concat bss ++ rest)) by (apply Hf; left; reflexivity).
        cbn [sbind fst snd]. rewrite IH by (intros y Hy; apply Hf; right; exact Hy).
        reflexivity.
  Qed.

  (* without the premise on norm: keys are scalars / enum members of scalars at one enum depth *)
  Theorem C13_roundtrip_total_proof : forall v,
    wf fc reg v -> keys_ok v ->
    exists bs nv, encv v = SOk bs /\ norm fc v = SOk nv /\
      forall fuel rest, (need v <= fuel)%nat -> decode fc pk reg fuel (bs ++ rest) = SOk (nv, rest).
  Proof.
    intros v Hwf Hk. destruct (norm_total fc reg v Hwf Hk) as [nv Hn].
    destruct (C13_roundtrip_proof v nv Hwf Hn) as [bs [E R]]. exists bs, nv. auto.
  Qed.

  (* the value itself comes back: no tuples, float32 floats, pairwise different hashable keys *)
  Theorem C13_roundtrip_exact_proof : forall v,
    wf fc reg v -> exact fc v ->
    exists bs, encv v = SOk bs /\
      forall fuel rest, (need v <= fuel)%nat -> decode fc pk reg fuel (bs ++ rest) = SOk (v, rest).
  Proof. intros v Hwf He. apply C13_roundtrip_proof; [exact Hwf | apply norm_exact; exact He]. Qed.

  (* encodings are self-delimiting: what follows an encoding cannot change how it is read *)
  Theorem C13_self_delimiting_proof : forall v1 v2 n1 n2 b1 b2 r1 r2,
    wf fc reg v1 -> wf fc reg v2 -> norm fc v1 = SOk n1 -> norm fc v2 = SOk n2 ->
    encv v1 = SOk b1 -> encv v2 = SOk b2 ->
    b1 ++ r1 = b2 ++ r2 -> n1 = n2 /\ r1 = r2.
  Proof.
    intros v1 v2 n1 n2 b1 b2 r1 r2 W1 W2 N1 N2 E1 E2 Heq.
    destruct (C13_roundtrip_proof v1 n1 W1 N1) as [b1' [E1' R1]].
    destruct (C13_roundtrip_proof v2 n2 W2 N2) as [b2' [E2' R2]].
    rewrite E1 in E1'. rewrite E2 in E2'.
    assert (b1' = b1) as -> by congruence. assert (b2' = b2) as -> by congruence.
    pose proof (R1 (Nat.max (need v1) (need v2)) r1 ltac:(lia)) as D1.
    pose proof (R2 (Nat.max (need v1) (need v2)) r2 ltac:(lia)) as D2.
    rewrite Heq in D1. rewrite D1 in D2. split; congruence.
  Qed.
  End RoundTrip.

  (* ---------- the encoder accepts exactly its domain *)
  Lemma mapM_ok_Forall : forall A B (f : A -> sres B) (P : A -> Prop),
    forall l, Forall (fun x => forall y, f x = SOk y -> P x) l ->
    forall ys, mapM f l = SOk ys -> fold_right (fun x Q => P x /\ Q) True l.
  Proof.
    induction 1 as [|x r Hx _ IH]; intros ys H; cbn; [exact I|].
    rewrite mapM_cons in H. apply sbind_ok in H. destruct H as [y [Ey H]].
    apply sbind_ok in H. destruct H as [ys' [Eys _]].
    split; [eapply Hx; exact Ey | eapply IH; exact Eys].
  Qed.

  Lemma enc_int_ok : forall z bs, enc_int z = SOk bs -> - 2 ^ 63 <= z < 2 ^ 63.
  Proof.
    intros z bs H. unfold enc_int in H.
    destruct (0x7FFFFFFF <? Z.abs z) eqn:E1.
    - destruct ((- 2 ^ 63 <=? z) && (z <? 2 ^ 63)) eqn:E; [lia | discriminate].
    - lia.
  Qed.

  Theorem enc_accepts : forall v bs, encv v = SOk bs -> accepts fc reg v.
  Proof.
    induction v using value_ind'; intros bs E.
    - exact I.
    - exact I.
    - cbn in E. cbn. eapply enc_int_ok. exact E.
    - cbn [enc] in E. apply sbind_ok in E. destruct E as [w [Ew _]]. cbn. eauto.
    - cbn [enc] in E. cbn. destruct (utf8_encode s) as [u|]; [|discriminate].
      destruct (MAXB <? len u) eqn:El; [discriminate|]. exists u. split; [reflexivity | lia].
    - cbn [enc] in E. cbn. destruct (MAXB <? len b) eqn:El; [discriminate | lia].
    - rewrite enc_seq_eq in E. destruct (MAXA <? len l) eqn:El; [discriminate|].
      apply sbind_ok in E. destruct E as [h [_ E]]. apply sbind_ok in E. destruct E as [body [Eb _]].
      cbn [accepts]. split; [lia|]. eapply mapM_ok_Forall; [|exact Eb]. exact H.
    - rewrite enc_tuple_eq, enc_seq_eq in E. destruct (MAXA <? len l) eqn:El; [discriminate|].
      apply sbind_ok in E. destruct E as [h [_ E]]. apply sbind_ok in E. destruct E as [body [Eb _]].
      cbn [accepts]. split; [lia|]. eapply mapM_ok_Forall; [|exact Eb]. exact H.
    - rewrite enc_dict_eq in E. destruct (MAXA <? len kv) eqn:El; [discriminate|].
      apply sbind_ok in E. destruct E as [h [_ E]]. apply sbind_ok in E. destruct E as [body [Eb _]].
      cbn [accepts]. split; [lia|].
      apply (mapM_ok_Forall _ _ (enc_pair fc reg)
               (fun p => accepts fc reg (fst p) /\ accepts fc reg (snd p)) kv) in Eb.
      + clear - Eb. induction kv; cbn in *; tauto.
      + clear - H. induction H as [|[k x] r [Hk Hx] _ IH]; constructor; [|exact IH].
        intros y Hy. cbn [enc_pair] in Hy. apply sbind_ok in Hy. destruct Hy as [a [Ea Hy]].
        apply sbind_ok in Hy. destruct Hy as [b [Eb _]]. cbn [fst snd] in *. split; eauto.
    - rewrite enc_set_eq in E. destruct (MAXA <? len l) eqn:El; [discriminate|].
      apply sbind_ok in E. destruct E as [h [_ E]]. apply sbind_ok in E. destruct E as [body [Eb _]].
      cbn [accepts]. split; [lia|]. eapply mapM_ok_Forall; [|exact Eb]. exact H.
    - rewrite enc_obj_eq in E. destruct (tid_packable t) eqn:Ep; [|discriminate].
      apply sbind_ok in E. destruct E as [h [Eh E]]. apply sbind_ok in E. destruct E as [body [Eb _]].
      cbn [accepts]. split; [exact Ep|]. split; [apply enc_int_ok in Eh; lia|].
      eapply mapM_ok_Forall; [|exact Eb]. exact H.
    - rewrite enc_enum_eq in E. destruct (tid_packable t) eqn:Ep; [|discriminate].
      destruct (reg_find reg t) as [[d|ms|b|]|] eqn:Er; try discriminate.
      destruct (hashable v) eqn:Eh; [|discriminate].
      apply sbind_ok in E. destruct E as [m [Em E]]. destruct m; [|discriminate].
      apply sbind_ok in E. destruct E as [b [Eb _]].
      cbn [accepts]. repeat split; eauto.
    - discriminate.
  Qed.

  Lemma accepts_list : forall l, Forall (fun v => accepts fc reg v -> exists bs, encv v = SOk bs) l ->
    fold_right (fun x P => accepts fc reg x /\ P) True l -> exists body, mapM encv l = SOk body.
  Proof.
    induction 1 as [|x r Hx _ IH]; intro Ha; [exists []; reflexivity|].
    cbn in Ha. destruct Ha as [Hax Har]. destruct (Hx Hax) as [b Eb]. destruct (IH Har) as [bs Ebs].
    exists (b :: bs). rewrite mapM_cons, Eb. cbn [sbind]. rewrite Ebs. reflexivity.
  Qed.

  Lemma enc_int_total : forall z, - 2 ^ 63 <= z < 2 ^ 63 -> exists bs, enc_int z = SOk bs.
  Proof.
    intros z H. unfold enc_int.
    destruct (0x7FFFFFFF <? Z.abs z).
    - assert ((- 2 ^ 63 <=? z) && (z <? 2 ^ 63) = true) as -> by lia. eauto.
    - destruct (0x7FFF <? Z.abs z); [eauto|]. destruct (0x7F <? Z.abs z); eauto.
  Qed.

  Theorem accepts_enc : forall v, accepts fc reg v -> exists bs, encv v = SOk bs.
  Proof.
    induction v using value_ind'; intro Ha.
    - eexists; reflexivity.
    - eexists; reflexivity.
    - cbn in Ha. cbn [enc]. apply enc_int_total. exact Ha.
    - cbn in Ha. destruct Ha as [w Hw]. cbn [enc]. rewrite Hw. eexists; reflexivity.
    - cbn in Ha. destruct Ha as [u [Hu Hl]]. cbn [enc]. rewrite Hu.
      assert (MAXB <? len u = false) as -> by lia.
      pose proof (len_nonneg _ u).
      destruct (enc_int_total (len u) ltac:(unfold MAXB in *; lia)) as [h ->]. eexists; reflexivity.
    - cbn in Ha. cbn [enc]. assert (MAXB <? len b = false) as -> by lia.
      pose proof (len_nonneg _ b).
      destruct (enc_int_total (len b) ltac:(unfold MAXB in *; lia)) as [h ->]. eexists; reflexivity.
    - cbn [accepts] in Ha. destruct Ha as [Hl Hf]. rewrite enc_seq_eq.
      assert (MAXA <? len l = false) as -> by lia. pose proof (len_nonneg _ l).
      destruct (enc_int_total (len l) ltac:(unfold MAXA in *; lia)) as [h ->].
      destruct (accepts_list l H Hf) as [body ->]. eexists; reflexivity.
    - cbn [accepts] in Ha. destruct Ha as [Hl Hf]. rewrite enc_tuple_eq, enc_seq_eq.
      assert (MAXA <? len l = false) as -> by lia. pose proof (len_nonneg _ l).
      destruct (enc_int_total (len l) ltac:(unfold MAXA in *; lia)) as [h ->].
      destruct (accepts_list l H Hf) as [body ->]. eexists; reflexivity.
    - cbn [accepts] in Ha. destruct Ha as [Hl Hf]. rewrite enc_dict_eq.
      assert (MAXA <? len kv = false) as -> by lia. pose proof (len_nonneg _ kv).
      destruct (enc_int_total (len kv) ltac:(unfold MAXA in *; lia)) as [h ->].
      assert (exists body, mapM (enc_pair fc reg) kv = SOk body) as [body ->]; [|eexists; reflexivity].
      clear - H Hf. induction H as [|[k x] r [Hk Hx] _ IH]; [exists []; reflexivity|].
      cbn [fold_right fst snd] in *. destruct Hf as [Hak [Hax Har]].
      destruct (Hk Hak) as [a Ea]. destruct (Hx Hax) as [b Eb]. destruct (IH Har) as [bs Ebs].
      exists ((a ++ b) :: bs). rewrite mapM_cons. cbn [enc_pair]. rewrite Ea. cbn [sbind]. rewrite Eb.
      cbn [sbind]. rewrite Ebs. reflexivity.
    - cbn [accepts] in Ha. destruct Ha as [Hl Hf]. rewrite enc_set_eq.
      assert (MAXA <? len l = false) as -> by lia. pose proof (len_nonneg _ l).
      destruct (enc_int_total (len l) ltac:(unfold MAXA in *; lia)) as [h ->].
      destruct (accepts_list l H Hf) as [body ->]. eexists; reflexivity.
    - cbn [accepts] in Ha. destruct Ha as [Hp [Hl Hf]]. rewrite enc_obj_eq, Hp.
      pose proof (len_nonneg _ l).
      destruct (enc_int_total (len l) ltac:(lia)) as [h ->].
      destruct (accepts_list l H Hf) as [body ->]. eexists; reflexivity.
    - cbn [accepts] in Ha. destruct Ha as [Hp [[ms [Hr Hm]] [Hh Hx]]].
      rewrite enc_enum_eq, Hp, Hr, Hh, Hm. cbn [sbind]. destruct (IHv Hx) as [b ->]. eexists; reflexivity.
    - destruct Ha.
  Qed.

  Theorem C13_domain_proof : forall v, (exists bs, encv v = SOk bs) <-> accepts fc reg v.
  Proof. intro v. split; [intros [bs E]; eapply enc_accepts; exact E | apply accepts_enc]. Qed.

  Theorem C13_refuses_proof : forall v, ~ accepts fc reg v -> exists e, encv v = SErr e.
  Proof.
    intros v Hn. destruct (encv v) as [bs|e] eqn:E; [|eauto].
    exfalso. apply Hn. eapply enc_accepts. exact E.
  Qed.

  Lemma wf_accepts : forall v, wf fc reg v -> accepts fc reg v.
  Proof.
    induction v using value_ind'; intro Hw; try exact Hw.
    - cbn [wf] in Hw. cbn [accepts]. destruct Hw as [Hl Hf]. split; [exact Hl|].
      clear Hl. induction H; cbn in *; [exact I | split; [apply H; tauto | apply IHForall; tauto]].
    - cbn [wf] in Hw. cbn [accepts]. destruct Hw as [Hl Hf]. split; [exact Hl|].
      clear Hl. induction H; cbn in *; [exact I | split; [apply H; tauto | apply IHForall; tauto]].
    - cbn [wf] in Hw. cbn [accepts]. destruct Hw as [Hl Hf]. split; [exact Hl|].
      clear Hl. induction H as [|p r [Hk Hx] _ IH]; cbn in *; [exact I|].
      split; [apply Hk; tauto | split; [apply Hx; tauto | apply IH; tauto]].
    - cbn [wf] in Hw. cbn [accepts]. destruct Hw as [Hl Hf]. split; [exact Hl|].
      clear Hl. induction H; cbn in *; [exact I | split; [apply H; tauto | apply IHForall; tauto]].
    - cbn [wf] in Hw. cbn [accepts]. destruct Hw as [Ht [_ [Hl Hf]]].
      split; [unfold tid_ok in Ht; unfold tid_packable; destruct (base_kind t); lia|].
      split; [exact Hl|].
      clear Hl. induction H; cbn in *; [exact I | split; [apply H; tauto | apply IHForall; tauto]].
    - cbn [wf] in Hw. cbn [accepts]. destruct Hw as [Ht [Hm [Hh Hx]]].
      split; [unfold tid_ok in Ht; unfold tid_packable; destruct (base_kind t); lia|].
      split; [exact Hm|]. split; [exact Hh | apply IHv; exact Hx].
  Qed.

  (* the refusals named by the property, with the exception each one raises *)
  Theorem C13_refuses_kinds_proof :
    (forall z, ~ (- 2 ^ 63 <= z < 2 ^ 63) -> encv (VInt z) = SErr (SE EValue)) /\
    (forall b e, to32 fc b = SErr e -> encv (VFloat b) = SErr e) /\
    (forall s c, In c s -> is_surrogate c = true -> encv (VStr s) = SErr (SE EUnicode)) /\
    (forall s bs, utf8_encode s = Some bs -> MAXB < len bs -> encv (VStr s) = SErr SName) /\
    (forall b, MAXB < len b -> encv (VBytes b) = SErr (SE EValue)) /\
    (forall l, MAXA < len l -> encv (VList l) = SErr (SE EValue) /\ encv (VTuple l) = SErr (SE EValue)
                               /\ encv (VSet l) = SErr (SE EValue)) /\
    (forall kv, MAXA < len kv -> encv (VDict kv) = SErr (SE EValue)) /\
    encv VUnsup = SErr (SE EType) /\
    (forall t ms x, reg_find reg t = Some (CEnum ms) -> tid_packable t = true -> hashable x = true ->
                    mem_py x ms = SOk false -> encv (VEnum t x) = SErr (SE EValue)).
  Proof.
    repeat split.
    - intros z Hz. cbn [enc]. unfold enc_int.
      assert (0x7FFFFFFF <? Z.abs z = true) as -> by lia.
      assert ((- 2 ^ 63 <=? z) && (z <? 2 ^ 63) = false) as -> by lia. reflexivity.
    - intros b e H. cbn [enc]. rewrite H. reflexivity.
    - intros s c Hin Hs. cbn [enc]. rewrite (utf8_encode_surrogate s c Hin Hs). reflexivity.
    - intros s bs Hu Hl. cbn [enc]. rewrite Hu. assert (MAXB <? len bs = true) as -> by lia. reflexivity.
    - intros b Hl. cbn [enc]. assert (MAXB <? len b = true) as -> by lia. reflexivity.
    - rewrite enc_seq_eq. assert (MAXA <? len l = true) as -> by lia. reflexivity.
    - rewrite enc_tuple_eq, enc_seq_eq. assert (MAXA <? len l = true) as -> by lia. reflexivity.
    - rewrite enc_set_eq. assert (MAXA <? len l = true) as -> by lia. reflexivity.
    - intros kv Hl. rewrite enc_dict_eq. assert (MAXA <? len kv = true) as -> by lia. reflexivity.
    - intros t ms x Hr Hp Hh Hm. rewrite enc_enum_eq, Hp, Hr, Hh, Hm. reflexivity.
  Qed.

  (* ---------- D18: a dict key / set element containing a tuple is accepted and does not decode *)
  Definition d18 : value := VDict [(VTuple [VInt 1; VInt 2], VInt 3)].

  Theorem C13_refuted_proof :
    exists v, wf fc reg v /\
      exists bs, encv v = SOk bs /\
        decode fc pk reg 10 bs = SErr (SE EType) /\ norm fc v = SErr (SE EType).
  Proof.
    exists d18. split.
    - cbn. unfold MAXA. repeat split; lia.
    - eexists. split; [reflexivity|]. split; reflexivity.
  Qed.

End C13.
