(* RecvHistP.v — the two receive windows of a connection refine the abstract window over true
   indices along arbitrary receive histories (C04).  Builds on SeqNumP (R, R_step, R_first). *)
From Coq Require Import Lia ZifyBool.
From RecordUpdate Require Import RecordUpdate.
From Model Require Import Base SeqNum Wire Conn RecvSpec RecvHist.
From Proofs Require Import Tac SeqNumP RecvP.
Import RecordSetNotations.
Open Scope Z_scope.

(* ---------- the concrete window represents an abstract window state ---------- *)

Definition W (nb : Z) (f : bitfield) (st : wstate) : Prop :=
  match st with
  | None => f = bf_new nb
  | Some (m, acc) => R f m acc /\ bf_nbits f = nb
  end.

Lemma W_step nb f st n : 1 <= nb -> W nb f st -> w_ok st n ->
  if w_dup nb st n
  then bf_insert f (wire n) = Err EDup /\ W nb f (w_next nb st n)
  else exists f', bf_insert f (wire n) = Ok f' /\ W nb f' (w_next nb st n).
Proof.
  intros Hnb HW [Hn Hh]. destruct st as [[m acc]|]; cbn [w_dup w_next W] in *.
  - destruct HW as [HR Hb]. pose proof (R_step f m acc n HR Hn Hh) as Hs. rewrite Hb in Hs.
    destruct (spec_dup nb m acc n) eqn:Hd.
    + split; [exact Hs|]. assert (n <= m) by (unfold spec_dup in Hd; lia).
      replace (Z.max m n) with m by lia. split; assumption.
    + destruct Hs as [f' [Hi [Hnb' HR']]]. exists f'. split; [exact Hi|]. split; [exact HR'|lia].
  - subst f. destruct (R_first nb n Hnb Hn) as [Hi HR]. eexists. split; [exact Hi|]. split; [exact HR|reflexivity].
Qed.

(* ---------- histories split ---------- *)

Lemma w_hist_app nb h1 : forall st h2,
  w_hist nb st (h1 ++ h2) = w_hist nb st h1 ++ w_hist nb (w_final nb st h1) h2.
Proof. induction h1 as [|n h IH]; intros st h2; cbn; [reflexivity|]. rewrite IH. reflexivity. Qed.

Lemma w_final_app nb h1 : forall st h2, w_final nb st (h1 ++ h2) = w_final nb (w_final nb st h1) h2.
Proof. induction h1 as [|n h IH]; intros st h2; cbn; [reflexivity|]. apply IH. Qed.

Lemma w_half_app nb h1 : forall st h2,
  w_half nb st (h1 ++ h2) <-> w_half nb st h1 /\ w_half nb (w_final nb st h1) h2.
Proof.
  induction h1 as [|n h IH]; intros st h2; cbn; [tauto|]. rewrite IH. tauto.
Qed.

Lemma w_inwin_app nb h1 : forall st h2,
  w_inwin nb st (h1 ++ h2) <-> w_inwin nb st h1 /\ w_inwin nb (w_final nb st h1) h2.
Proof.
  induction h1 as [|n h IH]; intros st h2; cbn; [tauto|]. rewrite IH. tauto.
Qed.

Lemma w_hist_length nb h : forall st, length (w_hist nb st h) = length h.
Proof. induction h as [|n h IH]; intros st; cbn; [reflexivity|]. rewrite IH. reflexivity. Qed.

Lemma fresh_of_app f1 : forall h1 f2 h2, length f1 = length h1 ->
  fresh_of (f1 ++ f2) (h1 ++ h2) = fresh_of f1 h1 ++ fresh_of f2 h2.
Proof.
  induction f1 as [|f fs IH]; intros [|n h1] f2 h2 Hl; cbn in *; try discriminate; [reflexivity|].
  destruct f; rewrite IH by lia; reflexivity.
Qed.

(* link with the specification used by C08 *)
Lemma w_hist_spec nb h : forall m acc, w_hist nb (Some (m, acc)) h = spec_hist nb m acc h.
Proof. induction h as [|n h IH]; intros m acc; cbn; [reflexivity|]. rewrite IH. reflexivity. Qed.

Lemma w_hist_first nb n0 h : w_hist nb None (n0 :: h) = false :: spec_hist nb n0 [n0] h.
Proof. cbn. rewrite w_hist_spec. reflexivity. Qed.

Lemma w_half_spec nb h : forall m acc, w_half nb (Some (m, acc)) h <-> half_range m h.
Proof.
  induction h as [|n h IH]; intros m acc; cbn; [tauto|]. rewrite IH. unfold w_ok. tauto.
Qed.

(* ---------- in-window histories accept every index at most once ---------- *)

Definition wf_w (st : wstate) : Prop :=
  match st with None => True | Some (m, acc) => NoDup acc /\ forall x, In x acc -> x <= m end.
Definition acc_of (st : wstate) : list Z := match st with None => [] | Some (_, acc) => acc end.

Lemma w_nodup nb h : forall st, wf_w st -> w_inwin nb st h ->
  NoDup (fresh_of (w_hist nb st h) h)
  /\ forall x, In x (fresh_of (w_hist nb st h) h) -> ~ In x (acc_of st).
Proof.
  induction h as [|n h IH]; intros st Hwf Hin; cbn [w_hist fresh_of].
  - split; [constructor|intros x []].
  - cbn [w_inwin] in Hin. destruct Hin as [Hn Hrest].
    destruct st as [[m acc]|]; cbn [w_dup w_next] in *.
    + destruct Hwf as [Hnd Hle].
      destruct (spec_dup nb m acc n) eqn:Hd.
      * assert (Hwf' : wf_w (Some (Z.max m n, acc))).
        { split; [exact Hnd|]. intros x Hx. apply Hle in Hx. lia. }
        destruct (IH _ Hwf' Hrest) as [H1 H2]. split; [exact H1|exact H2].
      * assert (Hnot : ~ In n acc).
        { intros Hi. pose proof (Hn Hi) as Hw. pose proof (Hle n Hi) as Hl.
          unfold spec_dup in Hd. apply InB_In in Hi. unfold InB in Hi. rewrite Hi in Hd. lia. }
        assert (Hwf' : wf_w (Some (Z.max m n, n :: acc))).
        { split; [constructor; assumption|]. intros x [<-|Hx]; [lia|]. apply Hle in Hx. lia. }
        destruct (IH _ Hwf' Hrest) as [H1 H2]. cbn [acc_of] in H2. split.
        -- constructor; [|exact H1]. intros Hx. apply (H2 n Hx). left. reflexivity.
        -- intros x [<-|Hx]; [exact Hnot|]. intros Hi. apply (H2 x Hx). right. exact Hi.
    + assert (Hwf' : wf_w (Some (n, [n]))).
      { split; [constructor; [intros []|constructor]|]. intros x [<-|[]]. lia. }
      destruct (IH _ Hwf' Hrest) as [H1 H2]. cbn [acc_of] in *. split.
      * constructor; [|exact H1]. intros Hx. apply (H2 n Hx). left. reflexivity.
      * intros x _ [].
Qed.

(* ---------- messages of one datagram ---------- *)

Lemma recv_msgs_g_erase now : forall ms js c orcs, length js = length ms ->
  let '(c', o, _) := recv_msgs_g c now (combine ms js) orcs in recv_msgs c now ms orcs = (c', o).
Proof.
  induction ms as [|m r IH]; intros [|j js] c orcs Hl; cbn in Hl; try discriminate; [reflexivity|].
  cbn [combine recv_msgs_g recv_msgs].
  destruct (bf_insert (c_bf_msg c) (w_seq m)) as [bf|e].
  2:{ apply IH. lia. }
  set (c0 := c <| c_bf_msg := bf |>).
  set (x := match w_type m with
            | APP => (recv_app c0 (w_seq m) (w_payload m), [], orcs)
            | APP_FRAGMENT => let '(c', o') := recv_fragment c0 now (w_seq m) (w_payload m) in (c', o', orcs)
            | DISCONNECT => (c0 <| c_status := DISCONNECTING |>, [], orcs)
            | KEEP_ALIVE | UNKNOWN => (c0, [], orcs)
            | t => let '(c', o') := recv_handshake c0 t (hd no_oracle orcs) in (c', o', tl orcs)
            end).
  destruct x as [[c1 o1] orcs']. destruct (raised o1); [reflexivity|].
  specialize (IH js c1 orcs' ltac:(lia)).
  destruct (recv_msgs_g c1 now (combine r js) orcs') as [[c2 o2] p2]. rewrite IH. reflexivity.
Qed.

Lemma recv_fragment_fields c now mseq frag : 6 <= len frag ->
  let '(c', o) := recv_fragment c now mseq frag in
  o = [] /\ c_key c' = c_key c /\ c_bf_pkt c' = c_bf_pkt c /\ c_bf_msg c' = c_bf_msg c.
Proof.
  intros Hl. unfold recv_fragment. replace (length frag <? 6)%nat with false by (unfold len in Hl; lia).
  cbv zeta. dif; repeat split.
Qed.

(* all messages of an accepted datagram (data messages) go through the message window in order *)
Lemma msgs_g_W now : forall ms js c orcs st,
  W 256 (c_bf_msg c) st -> w_half 256 st js ->
  map w_seq ms = map wire js -> forallb data_msg ms = true ->
  let '(c', o, p) := recv_msgs_g c now (combine ms js) orcs in
  W 256 (c_bf_msg c') (w_final 256 st js) /\ p = fresh_of (w_hist 256 st js) js
  /\ raised o = false /\ c_key c' = c_key c /\ c_bf_pkt c' = c_bf_pkt c.
Proof.
  induction ms as [|m r IH]; intros [|j js] c orcs st HW Hh Hmap Hd; cbn in Hmap; try discriminate.
  - cbn. repeat split; assumption.
  - injection Hmap as Hseq Hmap. cbn [forallb] in Hd. apply andb_prop in Hd as [Hdm Hd].
    cbn [w_half] in Hh. destruct Hh as [Hok Hh].
    cbn [combine recv_msgs_g w_hist w_final fresh_of]. rewrite Hseq.
    pose proof (W_step 256 (c_bf_msg c) st j ltac:(lia) HW Hok) as Hs.
    assert (Hnhs : is_hs (w_type m) = false).
    { unfold data_msg in Hdm. apply andb_prop in Hdm as [Ht _]. destruct (w_type m); try discriminate; reflexivity. }
    destruct (w_dup 256 st j) eqn:Hdup.
    + destruct Hs as [Hi HW']. rewrite Hi, Hnhs. apply IH; assumption.
    + destruct Hs as [f' [Hi HW']]. rewrite Hi.
      set (c0 := c <| c_bf_msg := f' |>).
      assert (Hx : exists c1, (match w_type m with
            | APP => (recv_app c0 (wire j) (w_payload m), [], orcs)
            | APP_FRAGMENT => let '(c', o') := recv_fragment c0 now (wire j) (w_payload m) in (c', o', orcs)
            | DISCONNECT => (c0 <| c_status := DISCONNECTING |>, [], orcs)
            | KEEP_ALIVE | UNKNOWN => (c0, [], orcs)
            | t => let '(c', o') := recv_handshake c0 t (hd no_oracle orcs) in (c', o', tl orcs)
            end) = (c1, [], orcs) /\ c_key c1 = c_key c /\ c_bf_pkt c1 = c_bf_pkt c /\ c_bf_msg c1 = f').
      { unfold data_msg in Hdm. apply andb_prop in Hdm as [Ht Hf].
        destruct (w_type m) eqn:Ety; try discriminate; try (eexists; repeat split; reflexivity).
        cbn in Hf. pose proof (recv_fragment_fields c0 now (wire j) (w_payload m) ltac:(lia)) as Hfr.
        destruct (recv_fragment c0 now (wire j) (w_payload m)) as [c' o']. destruct Hfr as (-> & A & B & C).
        exists c'. repeat split; assumption. }
      destruct Hx as [c1 [Hx [Hk [Hp Hm]]]]. rewrite Hx. cbn [raised existsb].
      rewrite <- Hm in HW'.
      specialize (IH js c1 orcs _ HW' Hh Hmap Hd).
      destruct (recv_msgs_g c1 now (combine r js) orcs) as [[c2 o2] p2].
      destruct IH as (A & B & C & D & E). cbn [app]. repeat split; try congruence.
Qed.

Lemma map_length_eq {A B C} (f : A -> C) (g : B -> C) l1 l2 : map f l1 = map g l2 -> length l2 = length l1.
Proof. intros H. apply (f_equal (@length C)) in H. rewrite !map_length in H. lia. Qed.

(* ---------- one datagram ---------- *)

Lemma recv_g_erase k c a : c_key c = Some k -> good k a ->
  let '(c', o, _, _) := recv_g c a in recv c (a_now a) (a_d a) (a_orcs a) = (c', o).
Proof.
  intros Hk (Hn & Hseq & ms & Hop & Hmap & Hjs & Hdata). unfold recv_g, recv.
  destruct (keyless_refuses c (d_hdr (a_d a))); [reflexivity|].
  rewrite Hk, Hop. destruct (bf_insert (c_bf_pkt c) (h_seq (d_hdr (a_d a)))) as [bf|e]; [|reflexivity].
  destruct (handle_ack_bits _ _) as [c1 o1].
  pose proof (recv_msgs_g_erase (a_now a) ms (a_js a) c1 (a_orcs a) (map_length_eq _ _ _ _ Hmap)) as He.
  destruct (recv_msgs_g c1 (a_now a) (combine ms (a_js a)) (a_orcs a)) as [[c2 o2] p]. rewrite He. reflexivity.
Qed.

Lemma bump_fields c : c_key (bump c) = c_key c /\ c_bf_pkt (bump c) = c_bf_pkt c /\ c_bf_msg (bump c) = c_bf_msg c.
Proof. repeat split. Qed.

(* the exact outcome of one good arrival, in terms of the two abstract windows *)
Lemma recv_g_W k c a stp stm :
  c_key c = Some k -> good k a -> W 32 (c_bf_pkt c) stp -> W 256 (c_bf_msg c) stm ->
  w_ok stp (a_n a) ->
  (w_dup 32 stp (a_n a) = false -> w_half 256 stm (a_js a)) ->
  let '(c', o, acc, p) := recv_g c a in
  c_key c' = Some k /\ W 32 (c_bf_pkt c') (w_next 32 stp (a_n a))
  /\ if w_dup 32 stp (a_n a)
     then c' = bump c /\ o = [ORet false] /\ acc = false /\ p = [] /\ W 256 (c_bf_msg c') stm
     else acc = true /\ p = fresh_of (w_hist 256 stm (a_js a)) (a_js a)
          /\ W 256 (c_bf_msg c') (w_final 256 stm (a_js a)) /\ exists o', o = o' ++ [ORet true].
Proof.
  intros Hk (Hn & Hseq & ms & Hop & Hmap & Hjs & Hdata) HWp HWm Hok Hhalf. unfold recv_g.
  unfold keyless_refuses. rewrite Hk. cbn [is_some negb andb]. rewrite Hop, Hseq.
  pose proof (W_step 32 (c_bf_pkt c) stp (a_n a) ltac:(lia) HWp Hok) as Hs.
  destruct (w_dup 32 stp (a_n a)) eqn:Hdup.
  - destruct Hs as [Hi HW']. rewrite Hi. split; [exact Hk|]. split; [exact HW'|]. repeat split. exact HWm.
  - destruct Hs as [f' [Hi HW']]. rewrite Hi.
    set (c0 := c <| c_bf_pkt := f' |> <| c_received := c_received c + 1 |> <| c_last_recv := a_now a |>).
    pose proof (handle_ack_bits_side c0 (d_hdr (a_d a))) as Hside.
    destruct (handle_ack_bits c0 (d_hdr (a_d a))) as [c1 o1]. cbn [fst] in Hside.
    apply side_fields in Hside.
    destruct Hside as (_ & Hkey & _ & _ & _ & Hbp & Hbm & _ & _ & _ & Hrec & _).
    assert (HWm1 : W 256 (c_bf_msg c1) stm) by (rewrite Hbm; exact HWm).
    pose proof (msgs_g_W (a_now a) ms (a_js a) c1 (a_orcs a) stm HWm1 (Hhalf eq_refl) Hmap Hdata) as Hm.
    destruct (recv_msgs_g c1 (a_now a) (combine ms (a_js a)) (a_orcs a)) as [[c2 o2] p].
    destruct Hm as (A & B & C & D & E).
    split; [rewrite D, Hkey; exact Hk|]. split; [rewrite E, Hbp; exact HW'|].
    split; [reflexivity|]. split; [exact B|]. split; [exact A|].
    rewrite C. exists (o1 ++ o2). rewrite <- app_assoc. reflexivity.
Qed.

(* ---------- boolean checkers are sound ---------- *)

Lemma Zlist_eqb_eq a : forall b, Zlist_eqb a b = true -> a = b.
Proof.
  induction a as [|x a IH]; intros [|y b] H; cbn in H; try discriminate; [reflexivity|].
  apply andb_prop in H as [H1 H2]. f_equal; [lia|apply IH; exact H2].
Qed.

Lemma goodb_sound k a : goodb k a = true -> good k a.
Proof.
  unfold goodb, good. intros H. apply andb_prop in H as [H H3]. apply andb_prop in H as [H1 H2].
  split; [lia|]. split; [lia|].
  destruct (open_dgram (Some k) (a_d a)) as [ms|e]; [|discriminate].
  apply andb_prop in H3 as [H3 H5]. apply andb_prop in H3 as [H3 H4].
  exists ms. split; [reflexivity|]. split; [apply Zlist_eqb_eq; exact H3|]. split; [|exact H5].
  apply Forall_forall. intros j Hj. rewrite forallb_forall in H4. specialize (H4 j Hj). lia.
Qed.

Lemma goodb_all k l : forallb (goodb k) l = true -> Forall (good k) l.
Proof.
  intros H. apply Forall_forall. intros a Ha. rewrite forallb_forall in H. apply goodb_sound. apply H. exact Ha.
Qed.

Lemma w_halfb_sound nb h : forall st, w_halfb nb st h = true -> w_half nb st h.
Proof.
  induction h as [|n h IH]; intros st H; cbn in *; [exact I|].
  apply andb_prop in H as [H1 H2]. split; [|apply IH; exact H2].
  unfold w_okb in H1. unfold w_ok. apply andb_prop in H1 as [A B]. split; [lia|].
  destruct st as [[m acc]|]; [lia|exact I].
Qed.

Lemma w_inwinb_sound nb h : forall st, w_inwinb nb st h = true -> w_inwin nb st h.
Proof.
  induction h as [|n h IH]; intros st H; cbn in *; [exact I|].
  apply andb_prop in H as [H1 H2]. split; [|apply IH; exact H2].
  destruct st as [[m acc]|]; [|exact I]. intros Hin.
  apply InB_In in Hin. unfold InB in Hin. rewrite Hin in H1. cbn in H1. lia.
Qed.
